"""C20 - failures surface as exceptions, never as a partial result."""
from __future__ import annotations

import ast
from typing import List, Optional, Set

from ..loader import AnalysisError, FuncInfo
from ..report import rule
from ..resolve import Resolver
from .common import Flow, all_calls, attr_chain, callee_fq, calls_to, message_text, short, unparse

POOL_CTORS = {"multiprocessing.Pool", "multiprocessing.pool.Pool", "multiprocessing.pool.ThreadPool",
              "multiprocessing.dummy.Pool", "concurrent.futures.ProcessPoolExecutor",
              "concurrent.futures.ThreadPoolExecutor"}
RELEASE = {"close", "terminate", "shutdown"}


def pool_factories(ana) -> Set[str]:
    """Package functions that return a freshly created pool (wrappers of the constructor)."""
    out = set()
    for fi in ana.prog.functions.values():
        for n in Resolver.walk_own(fi.node):
            if isinstance(n, ast.Return) and isinstance(n.value, ast.Call):
                r = ana.res.fq_of_expr(fi, n.value.func)
                if r and r[1] in POOL_CTORS:
                    out.add(fi.qualname)
            elif isinstance(n, ast.Return) and isinstance(n.value, ast.Name):
                # pool = Pool(...); return pool  - every binding of the returned local is a constructor call
                defs = [a for a in Resolver.walk_own(fi.node) if isinstance(a, ast.Assign) and any(isinstance(t, ast.Name) and t.id == n.value.id for t in a.targets)]
                if defs and all(isinstance(a.value, ast.Call) and (ana.res.fq_of_expr(fi, a.value.func) or (None, None))[1] in POOL_CTORS for a in defs) \
                        and n.value.id not in fi.own_params:
                    out.add(fi.qualname)
    return out


def pool_acquisitions(ana):
    """(function, assign stmt, variable) for every `v = <pool ctor or factory>(...)`; also `with ctor() as v`."""
    facts = pool_factories(ana)
    out = []
    for fi in ana.prog.functions.values():
        for n in Resolver.walk_own(fi.node):
            if isinstance(n, ast.Assign) and isinstance(n.value, ast.Call) and len(n.targets) == 1 \
                    and isinstance(n.targets[0], ast.Name):
                c = ana.res.callee(fi, n.value)
                name = c.func.qualname if c.func is not None else str(c.target)
                if name in POOL_CTORS or name in facts:
                    out.append((fi, n, n.targets[0].id))
            elif isinstance(n, ast.With):
                for it in n.items:
                    if isinstance(it.context_expr, ast.Call):
                        c = ana.res.callee(fi, it.context_expr)
                        name = c.func.qualname if c.func is not None else str(c.target)
                        if name in POOL_CTORS or name in facts:
                            out.append((fi, n, it.optional_vars.id if isinstance(it.optional_vars, ast.Name) else None))
            elif isinstance(n, ast.Expr) and isinstance(n.value, ast.Call):
                c = ana.res.callee(fi, n.value)
                name = c.func.qualname if c.func is not None else str(c.target)
                if name in POOL_CTORS or name in facts:
                    out.append((fi, n, None))
    return out, facts


@rule("C20", "R1", "PAIR", "worker pool released on every exit, exceptional ones included", evidence=True)
def r1(ctx):
    ana = ctx.ana
    acqs, facts = pool_acquisitions(ana)
    if not acqs:
        raise AnalysisError("no process-pool acquisition found (confirmed floor: 1)")
    for fi, st, var in acqs:
        cfg = ana.cfg(fi)
        if isinstance(st, ast.With):
            ctx.ok(fi, "pool is managed by a with statement: released on every exit", role=f"pool:{var}")
            continue
        if var is None:
            ctx.fail(fi, "pool created and not bound to a name: it can never be released", line=st, role="pool:unbound")
            continue
        node = cfg.stmt_node[id(st)]
        rel, joins = set(), set()
        for n in cfg.nodes:
            if n.kind == "stmt" and isinstance(n.ast, ast.Expr) and isinstance(n.ast.value, ast.Call):
                f = n.ast.value.func
                if isinstance(f, ast.Attribute) and isinstance(f.value, ast.Name) and f.value.id == var:
                    if f.attr in RELEASE:
                        rel.add(n.id)
                    if f.attr in ("join", "shutdown"):
                        joins.add(n.id)
            if n.kind == "with_exit":
                pass
        # ownership may be handed to the caller by returning the pool (factory functions)
        returned = [n for n in cfg.nodes if n.kind == "stmt" and isinstance(n.ast, ast.Return)
                    and isinstance(n.ast.value, ast.Name) and n.ast.value.id == var]
        avoid = set(rel) | {n.id for n in returned}
        starts = [s for s, k in cfg.succ[node.id] if k == "n"]
        bad = None
        for s in starts:
            if s in avoid:
                continue
            p = cfg.paths_avoiding(cfg.nodes[s], avoid, {cfg.exit.id, cfg.exc_exit.id})
            if p is None and s in (cfg.exit.id, cfg.exc_exit.id):
                p = [s]
            if p is not None:
                bad = p
                break
        if bad is not None:
            last = cfg.nodes[bad[-1]]
            via = [cfg.nodes[i] for i in bad if cfg.nodes[i].kind in ("stmt", "for", "test")]
            where = via[-1] if via else node
            kind = "exceptional" if last.id == cfg.exc_exit.id else "normal"
            ctx.fail(fi, f"pool `{var}` acquired at line {st.lineno} reaches the {kind} exit without close()/terminate() "
                         f"(path leaves through line {where.lineno}: {unparse(where.ast, 50) if where.ast is not None else ''})",
                     line=st, role=f"pool:{var}:release",
                     expected="every path from the acquisition to EXIT and EXC_EXIT passes a release call",
                     found=f"path of {len(bad)} CFG nodes avoiding all {len(rel)} release call(s)")
        else:
            ctx.ok(fi, f"every path from the acquisition of `{var}` (line {st.lineno}) to EXIT/EXC_EXIT passes one of "
                       f"{len(rel)} release call(s)", role=f"pool:{var}:release", releases=sorted(cfg.nodes[i].lineno for i in rel))
        # each release is followed by join on every path
        for r_id in sorted(rel):
            rn = cfg.nodes[r_id]
            if isinstance(rn.ast.value.func, ast.Attribute) and rn.ast.value.func.attr == "shutdown":
                continue
            p = None
            for s, k in cfg.succ[r_id]:
                if s in joins:
                    continue
                if s in (cfg.exit.id, cfg.exc_exit.id):
                    p = [s]
                    break
                p = cfg.paths_avoiding(cfg.nodes[s], joins, {cfg.exit.id, cfg.exc_exit.id})
                if p:
                    break
            ctx.check(p is None, fi, f"release at line {rn.lineno} is followed by join() on every path",
                      line=rn.lineno, role=f"pool:{var}:join@{_ordinal(cfg, rel, r_id)}",
                      expected="join() after close()/terminate() before leaving the function",
                      found="a path from the release to an exit without join()")


def _ordinal(cfg, rel, r_id):
    return sorted(rel).index(r_id)


def _handlers(ana):
    for fi in ana.prog.functions.values():
        for n in Resolver.walk_own(fi.node):
            if isinstance(n, ast.Try):
                for h in n.handlers:
                    yield fi, n, h


@rule("C20", "R2", "CENSUS", "no handler swallows an error; task results are consumed by an untimed get()", evidence=True)
def r2(ctx):
    ana = ctx.ana
    count = 0
    for fi, tr, h in _handlers(ana):
        count += 1
        cfg = ana.cfg(fi)
        hn = next(n for n in cfg.nodes if n.kind == "handler" and n.ast is h)
        p = cfg.paths_avoiding(hn, set(), {cfg.exit.id})
        caught = unparse(h.type, 40) if h.type is not None else "<bare>"
        if p is not None and not _guards_package_work(ana, fi, tr):
            # a handler around pure library conversions (int(x), np.asarray(x) ...) cannot absorb a failed task, a donor
            # shortage or a wrong-input error: none of them can be raised inside its try block
            ctx.ok(fi, f"handler `except {caught}` (line {h.lineno}) guards library calls only (no package function, no task result)",
                   line=h.lineno, role=f"handler:{caught}:library-only")
            continue
        ctx.check(p is None, fi, f"handler `except {caught}` (line {h.lineno}) raises on every path",
                  line=h.lineno, role=f"handler:{caught}",
                  expected="every path through the handler ends in raise",
                  found="a path from the handler to a normal exit (the error is swallowed)")
    if count == 0:
        ctx.ok("package", "no try/except inside any function", nontrivial=False)
    # AsyncResult consumption
    submits = all_calls(ana, lambda n: n in (".apply_async", ".map_async", ".starmap_async", ".submit"))
    gets = []
    for fi in ana.prog.functions.values():
        for cs in ana.res.calls(fi):
            if isinstance(cs.node, ast.Call) and cs.callee.kind == "method_unknown" and cs.callee.target in ("get", "result"):
                ty = cs.callee.receiver_type
                if ty[0] == "ext" and "AsyncResult" in ty[1] or ty == ("unknown",):
                    # only receivers that may be task handles: typed AsyncResult or fed by a task list
                    if ty[0] == "ext" or _fed_by_tasks(ana, fi, cs.node):
                        gets.append((fi, cs.node))
    for cs_ in submits:
        cbs = [k.arg for k in cs_.node.keywords if k.arg in ("callback", "error_callback")] if isinstance(cs_.node, ast.Call) else []
        if cbs:
            ctx.fail(cs_.caller, f"the task is submitted with {', '.join(cbs)}: the callback runs in the pool's result-handler thread, and if it raises "
                                 "that thread dies - get() then waits for ever", line=cs_.node.lineno, role=f"submit:callback:{','.join(cbs)}",
                     expected="results and errors are collected by get() only", found=unparse(cs_.node, 80))
    if submits and not gets:
        ctx.fail(submits[0].caller, "tasks are submitted asynchronously but no AsyncResult.get() consumes them: a worker's "
                                    "exception would never surface", line=submits[0].node, role="get:missing")
    for fi, call in gets:
        timed = bool(call.args) or any(k.arg == "timeout" for k in call.keywords)
        cfg = ana.cfg(fi)
        node = cfg.node_of(call)
        # exceptional successors of the get must lead to EXC_EXIT or to handlers that re-raise (covered above);
        # additionally the get must not sit under a handler that catches and continues
        ctx.check(not timed, fi, f"task result consumed by untimed get() at line {call.lineno}", line=call.lineno,
                  role="get:untimed", expected="get() without timeout so that the worker's exception propagates",
                  found=unparse(call))
        hs = [s for s, k in cfg.succ[node.id] if k == "e" and s != cfg.exc_exit.id]
        swallowed = False
        for s in hs:
            if cfg.paths_avoiding(cfg.nodes[s], set(), {cfg.exit.id}) is not None:
                swallowed = True
        ctx.check(not swallowed, fi, f"an exception raised by get() at line {call.lineno} leaves the function",
                  line=call.lineno, role="get:propagates",
                  expected="exception of the worker propagates unchanged", found="a handler around get() reaches a normal exit")
        # a result that is only fetched when the task reports success is never fetched when it failed: the error never surfaces
        # (and a loop that waits for it never ends)
        gated = [unparse(t, 60) for t, pol, _o in cfg.guards(node)
                 if pol and any(isinstance(x, ast.Call) and isinstance(x.func, ast.Attribute) and x.func.attr == "successful" for x in ast.walk(t))]
        ctx.check(not gated, fi, f"the get() at line {call.lineno} is reached whether or not the task succeeded", line=call.lineno,
                  role="get:unconditional", expected="get() not guarded by .successful()", found="; ".join(gated))


def _guards_package_work(ana, fi, tr: ast.Try) -> bool:
    """The try body (or its else clause) calls a package function, a method of a package class, a task-result getter, or
    something the resolver cannot identify."""
    for st in tr.body + tr.orelse:
        for n in ast.walk(st):
            if isinstance(n, ast.Call):
                c = ana.res.callee(fi, n)
                if c.kind in ("internal", "method_internal", "ctor", "local", "unknown"):
                    return True
                if c.kind == "method_unknown" and c.target not in ("append", "extend", "items", "keys", "values", "tolist", "astype", "reshape",
                                                                     "copy", "format", "join", "split", "strip", "debug", "info", "warning"):
                    return True
            if isinstance(n, (ast.Raise, ast.Assert)):
                return True
    return False


def _fed_by_tasks(ana, fi, call) -> bool:
    fl = Flow(ana, fi)
    dep = fl.closure(call.func.value)
    for p in dep.params:
        ann = fi.param_annotation(p)
        if ann is not None and ("AsyncResult" in ast.unparse(ann) or "TaskList" in ast.unparse(ann)):
            return True
    return any(n in (".apply_async", ".submit") for n in dep.call_names)


@rule("C20", "R3", "ORDER", "front-end TypeError translators are narrow and name the other entry point", evidence=True)
def r3(ctx):
    ana = ctx.ana
    fe = ana.prog.modules.get("fast_ticc.front_end")
    if fe is None:
        raise AnalysisError("module fast_ticc.front_end not found")
    publics = [ana.func("front_end.ticc_labels"), ana.func("front_end.ticc_joint_labels")]
    for fi in publics:
        other = [p for p in publics if p is not fi][0]
        tries = [n for n in Resolver.walk_own(fi.node) if isinstance(n, ast.Try)]
        main_calls = calls_to(ana, fi, "fast_ticc.main_loop.fit_stacked_data")
        if not main_calls:
            raise AnalysisError(f"{fi.qualname} does not call fit_stacked_data")
        translators = []
        for tr in tries:
            for h in tr.handlers:
                raises = [n for n in ast.walk(h) if isinstance(n, ast.Raise) and n.exc is not None]
                for r in raises:
                    if isinstance(r.exc, ast.Call) and isinstance(r.exc.func, ast.Name) and r.exc.func.id == "TypeError":
                        translators.append((tr, h, r))
        if not translators:
            ctx.fail(fi, "no TypeError translator found for wrong-kind input", role="translator:missing",
                     expected="try around the stacking call translating the failure into TypeError")
            continue
        for tr, h, r in translators:
            # narrow: the try body consists of stacking calls only
            body_calls = [n for st in tr.body for n in ast.walk(st) if isinstance(n, ast.Call)]
            names = set()
            for c in body_calls:
                cal = ana.res.callee(fi, c)
                names.add(cal.func.qualname if cal.func is not None else str(cal.target))
            only_stacking = all(n.startswith("fast_ticc.data_preparation.stack_training_data") for n in names) and names
            ctx.check(bool(only_stacking), fi, f"translator try-block (line {tr.lineno}) guards only the stacking call",
                      line=tr.lineno, role="translator:narrow",
                      expected="only data_preparation.stack_training_data* inside the translated try",
                      found=", ".join(sorted(short(n) for n in names)))
            ctx.check(r.cause is not None and isinstance(r.cause, ast.Name) and r.cause.id == h.name, fi,
                      "translator raises TypeError `from` the caught error", line=r.lineno, role="translator:from",
                      expected=f"raise TypeError(...) from {h.name}", found=unparse(r))
            msg = message_text(ana, fi, r.exc)
            ctx.check(other.name in msg, fi, f"translator message names the other entry point `{other.name}`",
                      line=r.lineno, role="translator:message", expected=other.name, found=msg[:90])
        # the translator must be the first thing that looks at the data: an earlier len()/attribute/subscript on it would
        # raise (or mis-report) for wrong-kind input before the TypeError can be produced
        cfg_ = ana.cfg(fi)
        dparam = fi.params[0]
        for tr, h, r in translators[:1]:
            first = cfg_.stmt_node.get(id(tr.body[0]))
            early = []
            for n_ in cfg_.nodes:
                if n_.kind in ("stmt", "test") and first is not None and cfg_.dominates(n_, first) and n_.id != first.id:
                    st_ = n_.ast if n_.kind == "stmt" else n_.ast.test
                    uses = [x for x in ast.walk(st_) if isinstance(x, ast.Name) and x.id == dparam and isinstance(x.ctx, ast.Load)]
                    if not uses:
                        continue
                    # allowed: data = list(data) (materialise an iterable), logging
                    if isinstance(st_, ast.Assign) and isinstance(st_.value, ast.Call) and unparse(st_.value.func) in ("list", "tuple") \
                            and len(st_.value.args) == 1 and isinstance(st_.value.args[0], ast.Name):
                        continue
                    if isinstance(st_, ast.Assign) and isinstance(st_.value, ast.ListComp) and isinstance(st_.value.elt, ast.Name):
                        continue
                    if isinstance(st_, ast.Expr) and isinstance(st_.value, ast.Call) and ana.is_logging_call(fi, st_.value):
                        continue
                    early.append(n_)
            ctx.check(not early, fi, "nothing inspects the data argument before the translating try (so wrong-kind input always reaches it)",
                      line=early[0].lineno if early else tr.lineno, role="translator:first",
                      expected="the stacking call inside the try is the first use of the data", found="; ".join(unparse(e.ast if e.kind == "stmt" else e.ast.test, 50) for e in early))
        for cs in main_calls:
            node = ana.cfg(fi).node_of(cs.node)
            inside = [tr for tr in tries if any(cs.node in list(ast.walk(st)) for st in tr.body) and tr.handlers]
            ctx.check(not inside, fi, "the main-loop call is outside every translating try (its errors are never re-labelled)",
                      line=cs.node.lineno, role="mainloop:outside-try",
                      expected="fit_stacked_data called outside try/except", found="call inside a try with handlers")


def _detecting_accesses(ctx):
    """Wrong-kind input is recognised only through the error the single-series stacker raises when it looks at `data.shape[1]`
    (AttributeError for a list of series, IndexError for a 1-D row).  Every path through the stacker to a normal return must
    perform that access - a fast path that returns earlier lets wrong input through."""
    ana = ctx.ana
    st = ana.func("data_preparation.stack_training_data")
    cfg = ana.cfg(st)
    dparam = st.params[0]
    probes = set()
    for n in cfg.nodes:
        src = n.ast if n.kind == "stmt" else (n.ast.test if n.kind == "test" and hasattr(n.ast, "test") else None)
        if src is None:
            continue
        for x in ast.walk(src):
            if isinstance(x, ast.Subscript) and isinstance(x.value, ast.Attribute) and x.value.attr == "shape" \
                    and isinstance(x.value.value, ast.Name) and x.value.value.id == dparam and isinstance(x.slice, ast.Constant) and x.slice.value == 1:
                probes.add(n.id)
            if isinstance(x, (ast.Tuple, ast.List)) and isinstance(n.ast, ast.Assign) and isinstance(n.ast.value, ast.Attribute) \
                    and n.ast.value.attr == "shape" and isinstance(n.ast.value.value, ast.Name) and n.ast.value.value.id == dparam and len(x.elts) == 2:
                probes.add(n.id)       # (rows, cols) = data.shape
    if not probes:
        raise AnalysisError("the stacker never reads data.shape[1]: how wrong-kind input is detected is not recognised")
    p = cfg.paths_avoiding(cfg.entry, probes, {cfg.exit.id}, kinds=("n",))
    ctx.check(p is None, st, "every path through the single-series stacker reads data.shape[1] before it returns (the access whose failure the front "
              "ends translate)", role="translator:probe", expected="no return before the shape access",
              found="a path from entry to return that never looks at data.shape[1]" if p else "")


@rule("C20", "R7", "ORDER", "wrong-kind input always reaches the access whose failure is translated", evidence=True)
def r7(ctx):
    _detecting_accesses(ctx)


@rule("C20", "R4", "ORDER", "donor shortage raises RuntimeError naming the shortage", evidence=True)
def r4(ctx):
    ana = ctx.ana
    fi = ana.func("cluster_maintenance._find_point_donor")
    cfg = ana.cfg(fi)
    raises = [n for n in cfg.nodes if n.kind == "stmt" and isinstance(n.ast, ast.Raise)]
    rt = [n for n in raises if isinstance(n.ast.exc, ast.Call) and unparse(n.ast.exc.func) == "RuntimeError"]
    if not ctx.check(bool(rt), fi, "a RuntimeError is raised when the donor pool is exhausted", role="raise:exists",
                     expected="raise RuntimeError(...)", found="no such raise"):
        return
    # every normal exit returns inside the search loop under the eligibility guard; falling out of the loop must raise
    loops = [n for n in Resolver.walk_own(fi.node) if isinstance(n, (ast.While, ast.For))]
    if not loops:
        raise AnalysisError("donor search loop not found")
    lp = loops[0]
    exits = [n for n in cfg.nodes if (n.kind == "branch" and n.ast is lp and n.polarity is False) or (n.kind == "for_exit" and n.ast is lp)]
    ok = all(cfg.paths_avoiding(x, set(), {cfg.exit.id}, kinds=("n",)) is None for x in exits)
    ctx.check(ok, fi, "leaving the donor search loop without a donor always reaches the raise", line=lp.lineno,
              role="raise:on-exhaustion", expected="loop exhaustion -> raise RuntimeError",
              found="a path from loop exhaustion to a normal return")
    msg = " ".join(message_text(ana, fi, n.ast.exc) for n in rt)
    ctx.check("donor" in msg.lower(), fi, "the message names the donor shortage", line=rt[0].lineno, role="raise:message",
              expected="'donor' in the message", found=msg[:80])
    # the RuntimeError is not caught anywhere between here and the public entry points (all handlers re-raise: R2)
    caught = []
    for f2, tr, h in _handlers(ana):
        t = unparse(h.type) if h.type is not None else ""
        if t in ("RuntimeError", "Exception", "BaseException", ""):
            c2 = ana.cfg(f2)
            hn = next(n for n in c2.nodes if n.kind == "handler" and n.ast is h)
            if c2.paths_avoiding(hn, set(), {c2.exit.id}) is not None:
                caught.append((f2, h))
    ctx.check(not caught, fi, "no handler in the package absorbs the RuntimeError", role="raise:not-caught",
              expected="handlers for RuntimeError/Exception re-raise", found=", ".join(short(f.qualname) for f, _ in caught))


@rule("C20", "R6", "CONST", "the donor shortage is detected exactly when no cluster can spare m points (donor accounting of C08)")
def r6(ctx):
    from . import c08, c13
    ctx.sub(c08.r3)
    ctx.sub(c08.r6)
    # "... behaves as if the failed call had not happened": until the error is raised nothing has been written into the caller's state
    ctx.sub(c13.r6, only=(r"input-write:cluster_maintenance\.repopulate_empty_clusters", r"input-write:cluster_maintenance\._move_random_points"))


@rule("C20", "R5", "PURE", "a failed call leaves no module-level state behind", evidence=True)
def r5(ctx):
    from .c14 import module_state_writes
    writes = module_state_writes(ctx.ana)
    if not writes:
        ctx.ok("package", "no function writes a module-level binding or mutates a module-level container "
                          f"({len(ctx.ana.prog.functions)} functions scanned)", role="module-state")
    for fi, node, what in writes:
        ctx.fail(fi, f"module-level state written: {what}", line=node, role=f"module-state:{what}",
                 expected="no cross-call state", found=unparse(node))
