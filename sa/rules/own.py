"""Shared access to the ownership analysis (one run per entry point and analysis context)."""
from __future__ import annotations

from typing import Dict

from ..heap import OwnershipAnalysis

_cache: Dict = {}


def ownership(ana, entry_qualname: str, k: int = 3) -> OwnershipAnalysis:
    key = (id(ana), entry_qualname, k)
    if key not in _cache:
        _cache.clear() if len(_cache) > 64 else None
        _cache[key] = OwnershipAnalysis(ana, ana.func(entry_qualname), k=k).run()
    return _cache[key]


def ext_writes(oa: OwnershipAnalysis, root: str = None):
    """Mutation events that may write a caller-owned object (optionally: owned by one parameter)."""
    out = []
    for m in oa.mutations:
        hit = [o for o in m.targets if o.is_ext and (root is None or o.root == root)]
        if hit:
            out.append((m, hit))
    return out


def describe(m) -> str:
    import ast
    try:
        src = " ".join(ast.unparse(m.node).split())
    except Exception:
        src = "?"
    return f"{m.func.qualname.split('fast_ticc.')[-1]}:{m.line} `{src[:70]}` ({m.kind})"
