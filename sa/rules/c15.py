"""C15 - Numba acceleration is semantically transparent (static necessary conditions)."""
from __future__ import annotations

import ast
from typing import Dict, List, Optional, Tuple

from .. import terms as tm
from ..loader import AnalysisError, FuncInfo
from ..report import rule
from ..resolve import Resolver
from ..terms import App, Attr, Comp, Idx, Poly, Range, Slc, Sym, Tup
from .common import Flow, bind_args, calls_to, module_constant, njit_kernels, short, unparse

DENY_KW = {"fastmath", "error_model", "forceobj", "looplift", "boundscheck", "inline", "nogil_unsafe"}
PRANGE = ("fast_ticc.numba_guard.prange", "numba.prange")


def _is_prange_loop(ana, fi, lp: ast.For) -> bool:
    if isinstance(lp.iter, ast.Call):
        r = ana.res.fq_of_expr(fi, lp.iter.func)
        return bool(r) and r[1] in PRANGE
    return False


@rule("C15", "R1", "DECOR", "njit is always used in call form without semantics-changing options; fall-backs are transparent", floor=5)
def r1(ctx):
    ana = ctx.ana
    ks = njit_kernels(ana)
    if len(ks) < 3:
        raise AnalysisError(f"only {len(ks)} njit kernels found (confirmed floor: 3)")
    for fi, d in ks:
        ctx.check(isinstance(d, ast.Call), fi, "decorator is njit(...) in call form (a bare @njit would hand the function to the "
                  "fall-back's *args and replace it by a decorator when Numba is absent)", line=d.lineno, role="decorator:call-form",
                  expected="@numba_guard.njit(...)", found="@" + unparse(d))
        if isinstance(d, ast.Call):
            bad = [k.arg for k in d.keywords if k.arg in DENY_KW and not (isinstance(k.value, ast.Constant) and k.value.value is False)]
            ctx.check(not bad, fi, "no option that changes floating-point or error semantics relative to the interpreter", line=d.lineno,
                      role="decorator:options", expected="none of " + ", ".join(sorted(DENY_KW)), found=", ".join(bad))
            ctx.check(not d.args, fi, "no explicit signature (which would coerce argument dtypes under JIT only)", line=d.lineno,
                      role="decorator:signature", expected="njit() / njit(parallel=...)", found=unparse(d))
    # guard module: fall-backs
    g = ana.prog.modules.get("fast_ticc.numba_guard")
    if g is None:
        raise AnalysisError("module fast_ticc.numba_guard not found")
    noop = ana.func("numba_guard.noop_decorator")
    inner = [f for f in ana.prog.functions.values() if f.parent is noop]
    ok = False
    if len(inner) == 1:
        w = inner[0]
        rets = [n for n in Resolver.walk_own(w.node) if isinstance(n, ast.Return)]
        if len(rets) == 1 and isinstance(rets[0].value, ast.Call):
            c = rets[0].value
            ok = isinstance(c.func, ast.Name) and c.func.id == noop.params[0] and len(c.args) == 1 and isinstance(c.args[0], ast.Starred) \
                and len(c.keywords) == 1 and c.keywords[0].arg is None
            ok = ok and w.node.args.vararg is not None and w.node.args.kwarg is not None \
                and c.args[0].value.id == w.node.args.vararg.arg and c.keywords[0].value.id == w.node.args.kwarg.arg
        outer_ret = [n for n in Resolver.walk_own(noop.node) if isinstance(n, ast.Return)]
        ok = ok and len(outer_ret) == 1 and isinstance(outer_ret[0].value, ast.Name) and outer_ret[0].value.id == w.name
    elif not inner:
        # the wrapper written as a lambda: `return lambda *a, **k: function(*a, **k)` (or the function itself handed back)
        outer_ret = [n for n in Resolver.walk_own(noop.node) if isinstance(n, ast.Return)]
        if len(outer_ret) == 1:
            v = outer_ret[0].value
            if isinstance(v, ast.Name):
                fl_ = Flow(ana, noop)
                d_ = fl_.sole_def(v.id, fl_.at(v))
                if v.id == noop.params[0]:
                    ok = True
                elif d_ is not None and d_.kind == "stmt" and isinstance(d_.ast, ast.Assign):
                    v = d_.ast.value
            if isinstance(v, ast.Lambda) and isinstance(v.body, ast.Call):
                c = v.body
                ok = isinstance(c.func, ast.Name) and c.func.id == noop.params[0] and len(c.args) == 1 and isinstance(c.args[0], ast.Starred) \
                    and len(c.keywords) == 1 and c.keywords[0].arg is None and v.args.vararg is not None and v.args.kwarg is not None \
                    and isinstance(c.args[0].value, ast.Name) and c.args[0].value.id == v.args.vararg.arg \
                    and isinstance(c.keywords[0].value, ast.Name) and c.keywords[0].value.id == v.args.kwarg.arg \
                    and not (v.args.args or v.args.kwonlyargs or v.args.posonlyargs)
    ctx.check(ok, noop, "the no-op decorator returns a wrapper that forwards *args/**kwargs and returns the function's value",
              role="fallback:noop", expected="def wrapped(*a, **k): return func(*a, **k)", found="different shape")
    fn = ana.func("numba_guard.fake_njit")
    rets = [n for n in Resolver.walk_own(fn.node) if isinstance(n, ast.Return)]
    b = ana.builder(fn, no_inline=ana.known)
    rt = b.return_term()
    good = False
    if isinstance(rt, tm.PW):
        vals = {v.key for _g, v in rt.pieces}
        good = Sym(noop.qualname).key in vals and any("numba.njit" in k for k in vals) and len(vals) == 2
    ctx.check(good, fn, "fake_njit(*args, **kwargs) returns a decorator: numba.njit(*args, **kwargs) or the no-op decorator",
              role="fallback:njit", expected="numba.njit(*a, **k) | noop_decorator", found=str(rt)[:120])
    fp = ana.func("numba_guard.fake_prange")
    bp = ana.builder(fp, no_inline=ana.known)
    rp = bp.return_term()
    good = False
    if isinstance(rp, tm.PW):
        vals = [v for _g, v in rp.pieces]
        good = any(isinstance(v, App) and v.fn == "builtins.range" for v in vals) and any(isinstance(v, App) and v.fn == "numba.prange" for v in vals)
        good = good and all(isinstance(v, App) and len(v.args) == 2 for v in vals)
    ctx.check(good, fp, "fake_prange forwards its arguments to numba.prange or range", role="fallback:prange",
              expected="numba.prange(*a, **k) | range(*a, **k)", found=str(rp)[:120])
    # the import guard must catch every way `import numba` can fail
    guards = [n for n in ast.walk(g.tree) if isinstance(n, ast.Try) and any(isinstance(x, ast.Import) and any(a.name == "numba" for a in x.names) for x in n.body)]
    okg = False
    found = "no try around `import numba`"
    if guards:
        hs = guards[0].handlers
        names = [unparse(h.type) if h.type is not None else "<bare>" for h in hs]
        found = ", ".join(names)
        okg = any(nm in ("ImportError", "Exception", "BaseException", "<bare>") or "ImportError" in nm for nm in names) \
            and all(not any(isinstance(x, ast.Raise) for x in ast.walk(h)) for h in hs)
    ctx.check(okg, g.name, "the guard catches ImportError (Numba missing *or* unimportable) and falls back instead of failing the import",
              role="fallback:import-guard", expected="except ImportError", found=found)
    # module-level selection
    sel = {}

    def _avail(test):
        """+1: test is NUMBA_AVAILABLE, -1: its negation, 0: something else"""
        if isinstance(test, ast.Name) and test.id == "NUMBA_AVAILABLE":
            return 1
        if isinstance(test, ast.UnaryOp) and isinstance(test.op, ast.Not):
            return -_avail(test.operand)
        return 0
    for n in ast.walk(g.tree):
        if isinstance(n, ast.If) and _avail(n.test):
            pos, neg = (n.body, n.orelse) if _avail(n.test) > 0 else (n.orelse, n.body)
            for br, stmts in (("numba", pos), ("fallback", neg)):
                for st in stmts:
                    if isinstance(st, ast.Assign) and isinstance(st.targets[0], ast.Name):
                        sel[(br, st.targets[0].id)] = unparse(st.value)
    for st in g.tree.body:
        if isinstance(st, ast.Assign) and len(st.targets) == 1 and isinstance(st.targets[0], ast.Name) and isinstance(st.value, ast.IfExp) \
                and _avail(st.value.test):
            pos, neg = (st.value.body, st.value.orelse) if _avail(st.value.test) > 0 else (st.value.orelse, st.value.body)
            sel[("numba", st.targets[0].id)] = unparse(pos)
            sel[("fallback", st.targets[0].id)] = unparse(neg)
    # (prange, njit) = (numba.prange, numba.njit) if NUMBA_AVAILABLE else (fake_prange, fake_njit)
    for st in g.tree.body:
        if isinstance(st, ast.Assign) and len(st.targets) == 1 and isinstance(st.targets[0], (ast.Tuple, ast.List)) and isinstance(st.value, ast.IfExp) \
                and _avail(st.value.test) and isinstance(st.value.body, (ast.Tuple, ast.List)) and isinstance(st.value.orelse, (ast.Tuple, ast.List)):
            pos, neg = (st.value.body, st.value.orelse) if _avail(st.value.test) > 0 else (st.value.orelse, st.value.body)
            names = [e.id for e in st.targets[0].elts if isinstance(e, ast.Name)]
            if len(names) == len(pos.elts) == len(neg.elts):
                for nm, a_, b_ in zip(names, pos.elts, neg.elts):
                    sel[("numba", nm)] = unparse(a_)
                    sel[("fallback", nm)] = unparse(b_)
    # (prange, njit) = _select():  the selector's return value, piece by piece
    for st in g.tree.body:
        if isinstance(st, ast.Assign) and len(st.targets) == 1 and isinstance(st.value, ast.Call) and isinstance(st.value.func, ast.Name) \
                and st.value.func.id in g.functions and not st.value.args and not st.value.keywords:
            tg = st.targets[0]
            names = [e.id for e in tg.elts] if isinstance(tg, (ast.Tuple, ast.List)) and all(isinstance(e, ast.Name) for e in tg.elts) else \
                ([tg.id] if isinstance(tg, ast.Name) else [])
            rt_sel = ana.builder(g.functions[st.value.func.id]).return_term()
            for g_, v in tm.pieces_of(rt_sel):
                gs = str(g_)
                if "NUMBA_AVAILABLE" not in gs:
                    continue
                br = "fallback" if gs.startswith("!") or gs.startswith("not") else "numba"
                vals = list(v.elems) if isinstance(v, tm.Tup) else [v]
                if len(vals) == len(names):
                    for nm, x in zip(names, vals):
                        sel[(br, nm)] = str(x).replace("fast_ticc.numba_guard.", "")
    want = {("numba", "njit"): "numba.njit", ("numba", "prange"): "numba.prange", ("fallback", "njit"): "fake_njit", ("fallback", "prange"): "fake_prange"}
    ctx.check(all(sel.get(k) == v for k, v in want.items()), g.name, "module-level njit/prange select Numba's or the fall-backs",
              role="fallback:selection", expected=str(want), found=str(sel))


@rule("C15", "R2", "DECOR", "a kernel with a loop-carried dependence is compiled sequentially", floor=1)
def r2(ctx):
    ana = ctx.ana
    n_carried = 0
    for fi, d in njit_kernels(ana):
        b = ana.builder(fi, no_inline=lambda f: False)
        stores = [s for s in b.stores() if s.idx is not None and s.loops and s.base_name]
        carried = []
        for s in stores:
            lp = s.loops[0]
            # reads of the same array, inside the same outer loop, at a different leading index
            for s2 in stores:
                if s2.loops and s2.loops[0] is lp:
                    for t in (s2.value, s2.guards):
                        for x in tm.subterms(t):
                            if isinstance(x, Idx) and x.base == Sym(s.base_name) and x.idx and s.idx and x.idx[0] != s.idx[0] \
                                    and isinstance(lp, ast.For) and isinstance(lp.target, ast.Name) \
                                    and tm.mentions(x.idx[0], Sym(lp.target.id)) and tm.mentions(s.idx[0], Sym(lp.target.id)):
                                carried.append((s, x, lp))
        if not carried:
            continue
        n_carried += 1
        par = None
        if isinstance(d, ast.Call):
            for k in d.keywords:
                if k.arg == "parallel":
                    par = k.value
        seq = par is None or (isinstance(par, ast.Constant) and par.value is False)
        s, x, lp = carried[0]
        ctx.check(seq, fi, f"kernel writes {s.base_name}[{s.idx[0]}] and reads {x} in the same loop: compiled with parallel=False",
                  line=d.lineno, role="sequential:option", expected="parallel absent or False", found=unparse(par) if par is not None else "")
        pr = [l for l in Resolver.walk_own(fi.node) if isinstance(l, ast.For) and _is_prange_loop(ana, fi, l)]
        ctx.check(not pr, fi, "no prange in a kernel with a loop-carried dependence", line=pr[0].lineno if pr else fi.node.lineno,
                  role="sequential:no-prange", expected="range", found=f"{len(pr)} prange loop(s)")
    if n_carried == 0:
        raise AnalysisError("no kernel with a loop-carried dependence found (the DP kernel is expected to have one)")


@rule("C15", "R3", "RANGE", "prange bodies write disjoint cells and carry no reduction", floor=1)
def r3(ctx):
    ana = ctx.ana
    loops = []
    for fi in ana.prog.functions.values():
        for l in Resolver.walk_own(fi.node):
            if isinstance(l, ast.For) and _is_prange_loop(ana, fi, l):
                loops.append((fi, l))
    if not loops:
        ctx.ok("package", "no prange loop in the package (nothing can race)", role="none")
        return
    for fi, lp in loops:
        cfg = ana.cfg(fi)
        rd = ana.rd(fi)
        b = ana.builder(fi, no_inline=lambda f: False)
        if not isinstance(lp.target, ast.Name):
            raise AnalysisError("prange target is not a plain name")
        v = Sym(lp.target.id)
        hdr = cfg.stmt_node[id(lp)]
        init = cfg.for_init[id(lp)]
        for s in b.stores():
            if lp not in s.loops:
                continue
            if s.idx is not None and s.base_name and _iteration_private(ana, fi, cfg, rd, lp, s):
                ctx.ok(fi, f"store `{unparse(s.target)}` writes an array allocated inside the same iteration (iteration-private)",
                       line=s.stmt.lineno, role=f"prange:store:private")
            elif s.idx is not None:
                ctx.check(bool(s.idx) and s.idx[0] == v and s.aug is None, fi,
                          f"store `{unparse(s.target)}` in the prange body is indexed by the induction variable (iterations write disjoint cells)",
                          line=s.stmt.lineno, role=f"prange:store:{s.base_name}", expected=f"{s.base_name}[{v}, ...] = ...",
                          found=unparse(s.stmt))
            else:
                ctx.fail(fi, "attribute store inside a prange body", line=s.stmt.lineno, role="prange:attr-store", found=unparse(s.stmt))
        # names assigned in the body must be private to an iteration
        for n in cfg.nodes:
            if n.kind in ("stmt", "for") and lp in cfg.enclosing_loops(n) and n.defs:
                for name in n.defs:
                    outer = [d for d in rd.reaching(init, name)]
                    aug = isinstance(n.ast, ast.AugAssign)
                    ctx.check(not outer and not aug, fi, f"`{name}` assigned in the prange body is private to the iteration (no reduction, "
                              "no outer variable)", line=n.lineno, role=f"prange:private:{name}",
                              expected="not defined before the loop, not an augmented assignment",
                              found=("augmented assignment; " if aug else "") + (f"also defined at line(s) {[d.lineno for d in outer]}" if outer else ""))
        par = None
        dec = [d for f, d in njit_kernels(ana) if f is fi]
        ctx.check(bool(dec), fi, "prange is used inside an njit kernel", role="prange:in-kernel", found="not decorated")


FRESH_ALLOC = {"numpy.zeros", "numpy.empty", "numpy.ones", "numpy.full", "numpy.zeros_like", "numpy.empty_like", "numpy.ones_like",
               "numpy.full_like", "numpy.copy", "numpy.array"}


def _iteration_private(ana, fi, cfg, rd, lp, s) -> bool:
    """The stored-into name is bound, on every path to the store, by a fresh allocation executed in the same iteration."""
    defs = rd.reaching(s.node, s.base_name)
    if not defs:
        return False
    for d in defs:
        if d.kind != "stmt" or lp not in cfg.enclosing_loops(d):
            return False
        from .common import def_value
        v = def_value(d)
        if not isinstance(v, ast.Call):
            return False
        r = ana.res.fq_of_expr(fi, v.func)
        if not (r and r[1] in FRESH_ALLOC):
            return False
    return True


def _affine_bounds(t, ranges: Dict[str, Range]) -> Optional[Tuple[tm.T, tm.T]]:
    """(min, max) of an index term that is affine with coefficient +-1/0 in loop variables."""
    t = tm.as_term(t)
    p = tm._poly(t)
    lo = hi = tm.ZERO
    for m, c in p.terms:
        if not m:
            lo = tm.add(lo, tm.const(c))
            hi = tm.add(hi, tm.const(c))
            continue
        if len(m) == 1 and m[0][1] == 1 and m[0][0].key in ranges and c.denominator == 1:
            r = ranges[m[0][0].key]
            if r.step == tm.ONE:
                vmin, vmax = r.lo, tm.add(r.hi, -1)
            elif r.step == tm.const(-1):
                vmin, vmax = tm.add(r.hi, 1), r.lo
            else:
                return None
            if c > 0:
                lo = tm.add(lo, tm.mul(tm.const(c), vmin))
                hi = tm.add(hi, tm.mul(tm.const(c), vmax))
            else:
                lo = tm.add(lo, tm.mul(tm.const(c), vmax))
                hi = tm.add(hi, tm.mul(tm.const(c), vmin))
            continue
        return None
    return lo, hi


def _nonneg_const(t) -> bool:
    """t >= 0 for all values >= 1 of the array-extent atoms it mentions (shape entries, len()): substitute
    a -> 1 + a' with a' >= 0 and require every coefficient to be non-negative."""
    t = tm.as_term(t)
    p = tm._poly(t)
    mapping = {}
    for a in p.atoms():
        is_extent = (isinstance(a, Idx) and isinstance(a.base, Attr) and a.base.name == "shape") or \
                    (isinstance(a, App) and a.fn == "len") or (isinstance(a, Sym) and a.name in ("num_clusters",))
        if not is_extent:
            return p.const_value() is not None and p.const_value() >= 0
        mapping[a.key] = tm.add(a, 1)
    q = tm._poly(tm.substitute(p, mapping))
    return all(c >= 0 for _m, c in q.terms)


@rule("C15", "R4", "RANGE", "every array subscript in an njit kernel is provably inside the array (Numba does not bounds-check)", floor=10)
def r4(ctx):
    ana = ctx.ana
    from .c01 import Kernel
    dp = Kernel(ana)
    for fi, d in njit_kernels(ana):
        b = ana.builder(fi, no_inline=lambda f: False)
        cfg = ana.cfg(fi)
        # shapes: parameters are symbolic, locals from zeros(shape)
        shapes: Dict[str, List[tm.T]] = {}
        for p in fi.params:
            r = b.ranks.rank(Sym(p))
            if r:
                shapes[p] = [Idx(Attr(Sym(p), "shape"), (tm.const(k),)) for k in range(r)]
        if fi is dp.fi:
            shapes[fi.params[0]] = [dp.T, dp.K]
        for n in cfg.nodes:
            if n.kind == "stmt" and isinstance(n.ast, ast.Assign) and len(n.ast.targets) == 1 and isinstance(n.ast.targets[0], ast.Name):
                t = b.term(n.ast.value, n)
                nm = n.ast.targets[0].id
                if isinstance(t, App) and t.fn in ("numpy.zeros", "numpy.ones", "numpy.empty"):
                    shp = t.args[0] if t.args else t.kwarg("shape")
                    if isinstance(shp, Tup):
                        shapes[nm] = list(shp.elems)
                    elif isinstance(shp, Attr) and shp.name == "shape" and isinstance(shp.base, Sym) and shp.base.name in shapes:
                        shapes[nm] = shapes[shp.base.name]
                elif isinstance(t, tm.Rep):
                    shapes[nm] = [tm.length(t)]
                elif isinstance(t, tm.Comp) and not t.conds and t.kind == "list" and not (isinstance(tm.length(t), App) and tm.length(t).fn == "len"):
                    shapes[nm] = [tm.length(t)]          # [v for _ in range(n)]: a list of n entries, like [v] * n
                elif isinstance(t, Poly) and any(isinstance(a, App) and a.fn == "numpy.zeros" for a in t.atoms()):
                    z = [a for a in t.atoms() if isinstance(a, App) and a.fn == "numpy.zeros"][0]
                    shp = z.args[0] if z.args else z.kwarg("shape")
                    if isinstance(shp, Tup):
                        shapes[nm] = list(shp.elems)
        # normalise len(X) / X.shape[0]
        loop_ranges: Dict[int, Range] = {}
        for lp in Resolver.walk_own(fi.node):
            if isinstance(lp, ast.For) and isinstance(lp.target, ast.Name):
                r = b.loop_range(lp)
                if r is not None:
                    loop_ranges[id(lp)] = r

        def ranges_at(node):
            # the loops that enclose the subscript (two loops may use the same variable name one after the other)
            out = {}
            for lp in cfg.enclosing_loops(node):
                if id(lp) in loop_ranges:
                    out[Sym(lp.target.id).key] = loop_ranges[id(lp)]
            return out
        subs = [s for s in Resolver.walk_own(fi.node) if isinstance(s, ast.Subscript) and isinstance(s.value, ast.Name)]
        for s in subs:
            name = s.value.id
            if name not in shapes:
                if name in ("label_switching_cost",) or name not in fi.params:
                    pass
                continue
            elts = s.slice.elts if isinstance(s.slice, ast.Tuple) else [s.slice]
            at = cfg.node_of(s)
            ranges = ranges_at(at)
            for k, e in enumerate(elts):
                if isinstance(e, ast.Slice):
                    continue
                if k >= len(shapes[name]):
                    ctx.fail(fi, f"`{unparse(s)}` has more indices than the array has dimensions", line=s.lineno, role=f"bounds:{name}:rank")
                    continue
                dim = shapes[name][k]
                dim = tm.substitute(dim, {App("len", (Sym(fi.params[-1]),)).key: Idx(Attr(Sym(fi.params[-1]), "shape"), (tm.ZERO,))})
                t = b.term(e, at)
                t = tm.substitute(t, {App("len", (Sym(fi.params[-1]),)).key: Idx(Attr(Sym(fi.params[-1]), "shape"), (tm.ZERO,))})
                role = f"bounds:{name}[{k}]:{unparse(e, 24)}"
                bd = _affine_bounds(t, ranges)
                if bd is not None:
                    lo, hi = bd
                    lo = _norm_len(lo, fi)
                    hi = _norm_len(hi, fi)
                    dim2 = _norm_len(dim, fi)
                    ok = _nonneg_const(lo) and _nonneg_const(tm.add(tm.add(dim2, -1), tm.neg(hi)))
                    ctx.check(ok, fi, f"`{unparse(s)}`: index {k} ranges over [{lo}, {hi}] inside [0, {dim2} - 1]", line=s.lineno, role=role,
                              expected=f"0 <= index <= {dim2} - 1 (T >= 1, K >= 1)", found=f"[{lo}, {hi}]")
                    continue
                # label-valued index (provenance C01.R8): argmin over a K-row or a back-pointer read
                if fi is dp.fi and _label_valued(t, dp, b) and dim == dp.K:
                    ctx.ok(fi, f"`{unparse(s)}`: index {k} is a label with provenance in [0, K) (C01.R8)", line=s.lineno, role=role)
                    continue
                ctx.fail(fi, f"`{unparse(s)}`: index {k} = {t} is not provably inside [0, {dim})", line=s.lineno, role=role,
                         expected="affine in loop variables with range inside the shape, or a label", found=str(t))
    # callers pass one row per cluster and K = arguments.num_clusters
    caller = ana.func("likelihood.all_points_all_clusters_log_likelihood")
    kern = ana.func("likelihood.all_points_all_clusters_log_likelihood_fast")
    cs = calls_to(ana, caller, kern.qualname)
    if not cs:
        raise AnalysisError("likelihood table kernel is not called from its wrapper")
    bc = ana.builder(caller, no_inline=ana.known)
    for c in cs:
        ba = bind_args(kern, c.node)
        m = Sym(caller.params[0])
        K = bc.term(ba["num_clusters"])
        ctx.check(K == Attr(Attr(m, "arguments"), "num_clusters"), caller, "the kernel's cluster count is arguments.num_clusters",
                  line=c.node.lineno, role="caller:K", expected="model.arguments.num_clusters", found=str(K))
        for p in ("mus", "thetas", "log_det_thetas"):
            t = bc.term(ba[p])
            inner = t.args[0] if isinstance(t, App) and t.fn in ("numpy.asarray", "numpy.array") and t.args else t
            ok = isinstance(inner, Comp) and not inner.conds and inner.iter == Range(0, tm.length(Attr(m, "clusters")))
            ctx.check(ok, caller, f"`{p}` has one row per cluster of the model, in cluster order (len(model.clusters) = K by C13.R4)",
                      line=c.node.lineno, role=f"caller:{p}", expected="asarray([f(c) for c in model.clusters])", found=str(t)[:120])


def _norm_len(t, fi):
    """len(X) of an array parameter is X.shape[0]."""
    mapping = {}
    for p in fi.params:
        mapping[App("len", (Sym(p),)).key] = Idx(Attr(Sym(p), "shape"), (tm.ZERO,))
    return tm.substitute(t, mapping)


def _label_valued(t, dp, b) -> bool:
    if isinstance(t, App) and t.fn == "numpy.argmin":
        return True
    if isinstance(t, Idx) and isinstance(t.base, Sym):
        # element of the returned label list or of the back-pointer table
        rt = dp.builder.return_term()
        return t.base == rt.elems[0] or t.base == Sym(dp.P)
    if isinstance(t, Sym) and t == dp.c:
        return True
    return False


@rule("C15", "R5", "PURE", "kernels read no mutable module-level state (Numba freezes globals at compile time)", floor=3, evidence=True)
def r5(ctx):
    ana = ctx.ana
    for fi, d in njit_kernels(ana):
        locs = ana.res.local_names(fi)
        bad = []
        n_glob = 0
        for n in Resolver.walk_own(fi.node):
            if isinstance(n, ast.Name) and isinstance(n.ctx, ast.Load) and n.id not in locs:
                mi = fi.module
                if n.id in mi.imports or n.id in mi.functions or n.id in mi.classes:
                    n_glob += 1
                    continue
                if n.id in mi.globals:
                    st = mi.globals[n.id]
                    n_glob += 1
                    rebound = any(isinstance(g, ast.Global) and n.id in g.names for f2 in ana.prog.functions.values() if f2.module is mi
                                  for g in Resolver.walk_own(f2.node))
                    const = module_constant(mi, n.id) or (isinstance(st, (ast.Assign, ast.AnnAssign)) and st.value is not None and
                                                          ana.builder(fi)._constant_expression(st.value))   # LOG_2PI = math.log(2 * math.pi)
                    if rebound or mi.global_assign_count.get(n.id, 0) != 1 or not const:
                        bad.append(n)
        ctx.check(not bad, fi, f"kernel reads only modules, functions and constants from module scope ({n_glob} global reads)",
                  line=bad[0].lineno if bad else fi.node.lineno, role="globals", expected="no mutable module-level object",
                  found=", ".join(sorted({x.id for x in bad})))


RANDOM_PREFIXES = ("numpy.random.", "random.", "secrets.", "uuid.", "time.time", "os.urandom")


@rule("C15", "R6", "CENSUS", "nothing outside the guard module branches on Numba's availability, and no kernel draws random numbers", evidence=True)
def r6(ctx):
    """Two ways to make the three execution modes differ that no kernel template sees: a second implementation selected when
    Numba is missing, and a random draw inside a kernel (Numba has its own generator, which ignores numpy.random.seed)."""
    ana = ctx.ana
    guard = "fast_ticc.numba_guard"
    bad = []
    for mi in ana.prog.modules.values():
        if mi.name == guard:
            continue
        for n in ast.walk(mi.tree):
            d = ana.res.dotted(n) if isinstance(n, (ast.Attribute, ast.Name)) else None
            if not d:
                continue
            root = mi.imports.get(d[0])
            fq = ".".join(([root] if root else [d[0]]) + d[1:])
            if fq.endswith("numba_guard.NUMBA_AVAILABLE") or fq == "NUMBA_AVAILABLE" and mi.imports.get("NUMBA_AVAILABLE", "").endswith("NUMBA_AVAILABLE"):
                bad.append((mi, n, "NUMBA_AVAILABLE"))
            elif root == "numba" or (root or "").startswith("numba."):
                bad.append((mi, n, fq))
    seen = set()
    for mi, n, what in bad:
        key = (mi.name, what)
        if key in seen:
            continue
        seen.add(key)
        ctx.fail(mi.name, f"`{what}` is used outside the guard module (line {n.lineno}): behaviour may now depend on whether Numba is installed",
                 line=n.lineno, role=f"availability:{mi.name.split('.')[-1]}:{what}", expected="only fast_ticc.numba_guard looks at Numba", found=what)
    if not bad:
        ctx.ok("package", "only fast_ticc.numba_guard refers to numba / NUMBA_AVAILABLE", role="availability")
    # inside the guard module: Numba is imported, asked for njit / prange, and otherwise left alone - its thread pool and its
    # configuration are process-wide and a request can fail (set_num_threads raises above NUMBA_NUM_THREADS) where the fallback cannot
    gm = ana.prog.modules.get(guard)
    conf = []
    if gm is not None:
        for n in ast.walk(gm.tree):
            d = ana.res.dotted(n) if isinstance(n, ast.Attribute) else None
            if d and (gm.imports.get(d[0]) == "numba" or d[0] == "numba") and len(d) >= 2 and d[1] not in ("njit", "prange", "jit", "__version__"):
                conf.append((n, ".".join(d)))
    for n, what in conf:
        ctx.fail(guard, f"the guard module reaches into Numba's runtime (`{what}`): thread count and configuration are process-global, and the "
                        "no-Numba fallback has no counterpart that can fail the same way", line=n.lineno, role=f"numba-runtime:{what}",
                 expected="numba.njit / numba.prange only", found=what)
    if gm is not None and not conf:
        ctx.ok(guard, "the guard module takes njit and prange from Numba and nothing else", role="numba-runtime")
    # NumPy's floating-point error state (np.errstate / np.seterr) governs interpreted NumPy code only: a compiled kernel ignores it,
    # so "raise" turns an underflow into an exception in one execution mode and not in the other
    errs = []
    for f_ in ana.prog.functions.values():
        for cs_ in ana.res.calls(f_):
            t_ = str(cs_.callee.target or "")
            if t_ in ("numpy.errstate", "numpy.seterr", "numpy.seterrcall"):
                errs.append((f_, cs_, t_))
    for f_, cs_, t_ in errs:
        ctx.fail(f_, f"`{t_}` changes how floating-point flags are handled around code that runs compiled under JIT: the interpreted and the compiled "
                     "kernels then differ (one raises, the other returns)", line=cs_.node.lineno, role=f"fp-error-state:{short(f_.qualname)}:{t_}",
                 expected="default floating-point error handling", found=unparse(cs_.node, 60))
    n_k = 0
    for fi, d in njit_kernels(ana):
        n_k += 1
        rnd = []
        for cs in ana.res.calls(fi):
            t = cs.callee.target or ""
            if any(t.startswith(p) for p in RANDOM_PREFIXES):
                rnd.append((cs, t))
        for cs, t in rnd:
            ctx.fail(fi, f"kernel calls {t}: under JIT the draw comes from Numba's own generator, not from the seeded NumPy/Python one",
                     line=cs.node.lineno, role=f"kernel-random:{short(fi.qualname)}:{t}", expected="deterministic kernels", found=t)
        if not rnd:
            ctx.ok(fi, "kernel draws no random numbers", role=f"kernel-random:{short(fi.qualname)}")
    if n_k == 0:
        raise AnalysisError("no njit kernel found")


# library calls whose Numba implementation agrees with NumPy for the argument kinds the kernels use (arrays of float64 / integer
# dtypes, Python scalars); anything else inside a compiled kernel is outside what this analysis can vouch for
KERNEL_CALLS_MODELLED = {
    "builtins.range", "builtins.len", "builtins.int", "builtins.float", "builtins.min", "builtins.max", "builtins.abs",
    "numpy.zeros", "numpy.ones", "numpy.empty", "numpy.zeros_like", "numpy.empty_like", "numpy.argmin", "numpy.argmax",
    "numpy.log", "numpy.exp", "numpy.sqrt", "numpy.dot", "numpy.sum", "numpy.abs", "numpy.transpose",
    "fast_ticc.numba_guard.prange", "numba.prange",
}
KERNEL_METHODS_MODELLED = {"argmin", "argmax", "sum", "dot", "transpose", "copy"}


@rule("C15", "R7", "CENSUS", "compiled kernels use only library calls whose Numba and NumPy behaviour is known to agree", floor=3)
def r7(ctx):
    """Not a verdict on the call: `np.full(n, x)`, `np.repeat(x, n)` or `a.ravel()[i]` type-check (or index) differently under
    Numba than in the interpreter for some argument kinds - array-valued fill values, uint16 index arithmetic under NEP 50 - and this
    analysis has no model of that.  A call outside the modelled set makes the property undecidable here (exit 2), never a VIOLATION."""
    ana = ctx.ana
    for fi, d in njit_kernels(ana):
        unknown = []
        for cs in ana.res.calls(fi):
            c = cs.callee
            if c.func is not None:
                continue                                    # another package function (a kernel itself: C15.R1 census)
            t = str(c.target)
            if c.kind == "method_unknown":
                if t not in KERNEL_METHODS_MODELLED:
                    unknown.append((cs, "." + t + "()"))
            elif t == "numpy.full" and isinstance(cs.node, ast.Call) and len(cs.node.args) == 2 and not cs.node.keywords \
                    and isinstance(cs.node.args[1], ast.Constant) and isinstance(cs.node.args[1].value, float):
                continue                                    # np.full(shape, <float literal>): a float64 array in both worlds, like np.zeros
            elif t not in KERNEL_CALLS_MODELLED:
                unknown.append((cs, t))
        for n in Resolver.walk_own(fi.node):
            if isinstance(n, ast.Subscript) and isinstance(n.value, ast.Subscript) and isinstance(n.value.value, ast.Name) \
                    and not any(isinstance(x, ast.Slice) for x in ast.walk(n.value.slice)):
                continue                                    # a[i][j]: element j of row view i, the same element as a[i, j]
            if isinstance(n, ast.Subscript) and not isinstance(n.value, (ast.Name, ast.Attribute)):
                unknown.append((None, f"subscript of an expression `{unparse(n, 50)}`"))
        for n in Resolver.walk_own(fi.node):
            # a / b, a // b, a % b: compiled code raises ZeroDivisionError (Numba's default error model) where NumPy scalars give
            # inf / nan and a warning - the two agree only when the divisor cannot be zero, which is decided for literals only
            if isinstance(n, ast.BinOp) and isinstance(n.op, (ast.Div, ast.FloorDiv, ast.Mod)) and not (
                    isinstance(n.right, ast.Constant) and isinstance(n.right.value, (int, float)) and n.right.value != 0) and not (
                    isinstance(n.right, ast.Name) and n.right.id in fi.own_params and fi.param_annotation(n.right.id) is not None
                    and unparse(fi.param_annotation(n.right.id)) == "int"):       # (a Python int divisor raises in both worlds)
                unknown.append((None, f"division by a run-time value `{unparse(n, 50)}`"))
        for n in Resolver.walk_own(fi.node):
            # x ** y with a run-time exponent: a Python float power raises OverflowError where compiled code returns inf
            if isinstance(n, ast.BinOp) and isinstance(n.op, ast.Pow) and not isinstance(n.right, ast.Constant):
                unknown.append((None, f"power with a run-time exponent `{unparse(n, 40)}`"))
        for n in Resolver.walk_own(fi.node):
            # an allocation whose dtype is a run-time value (`dtype=cost.dtype`, a local bound to one): the work tables then follow the
            # caller's precision, and NumPy's scalar arithmetic on float32 / integer cells promotes differently from Numba's
            # (round 8, C15-u1: near-ties around 2**24 labelled differently).  Literal dtypes (np.float64, float, "f8") are the same in both.
            if isinstance(n, ast.Call):
                dt = next((k.value for k in n.keywords if k.arg == "dtype"), None)
                if dt is None:
                    continue
                lit = isinstance(dt, ast.Constant) or (isinstance(dt, ast.Name) and dt.id in ("float", "int", "bool", "complex")) or (
                    isinstance(dt, ast.Attribute) and isinstance(dt.value, ast.Name) and dt.value.id in ("np", "numpy", "numba", "nb")
                    and dt.attr != "dtype")
                if not lit:
                    unknown.append((None, f"allocation with a run-time dtype `{unparse(n, 60)}`"))
        # a local that is not assigned on every path to a read: UnboundLocalError in the interpreter, a zero-initialised value in
        # compiled code (definite-assignment analysis: a must-dataflow over the CFG)
        cfg_ = ana.cfg(fi)
        a_ = fi.node.args
        params_ = {x.arg for x in a_.posonlyargs + a_.args + a_.kwonlyargs}
        locals_ = {d for nd in cfg_.nodes for d in nd.defs} - params_
        TOP = None
        must_in = {nd.id: TOP for nd in cfg_.nodes}
        must_out = {nd.id: TOP for nd in cfg_.nodes}
        must_in[cfg_.entry.id] = set()
        must_out[cfg_.entry.id] = set(params_)
        changed_ = True
        rounds_ = 0
        while changed_ and rounds_ < 200:
            changed_ = False
            rounds_ += 1
            for nd in cfg_.nodes:
                if nd is cfg_.entry:
                    continue
                ins = [must_out[p] for p, k in cfg_.pred.get(nd.id, []) if k == "n" and must_out[p] is not TOP]
                if not ins:
                    continue
                new_in = set.intersection(*ins)
                new_out = new_in | set(nd.defs)
                if must_in[nd.id] is TOP or new_in != must_in[nd.id] or must_out[nd.id] is TOP or new_out != must_out[nd.id]:
                    must_in[nd.id], must_out[nd.id] = new_in, new_out
                    changed_ = True
        for nd in cfg_.nodes:
            if nd.ast is None or must_in[nd.id] is TOP or nd.kind not in ("stmt", "test", "for_init"):
                continue
            expr = nd.ast.test if nd.kind == "test" and hasattr(nd.ast, "test") else (nd.ast.iter if nd.kind == "for_init" else nd.ast)
            for x in ast.walk(expr):
                if isinstance(x, ast.Name) and isinstance(x.ctx, ast.Load) and x.id in locals_ and x.id not in must_in[nd.id]:
                    if isinstance(nd.ast, (ast.For, ast.While, ast.If, ast.With, ast.Try)) and nd.kind == "stmt":
                        continue
                    unknown.append((None, f"local `{x.id}` that is not assigned on every path to its use at line {x.lineno}"))
        if unknown:
            what = ", ".join(sorted({w for _c, w in unknown}))
            ctx.unrecognised(fi, f"the kernel uses {what}: agreement of Numba and NumPy for the argument kinds used here is not modelled",
                             role=f"kernel-calls:{short(fi.qualname)}", found=what)
        else:
            ctx.ok(fi, "every library call in the kernel is in the modelled set (allocation, argmin, log, range / prange)", role=f"kernel-calls:{short(fi.qualname)}")
