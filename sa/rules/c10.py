"""C10 - window stacking is exact and never crosses a series boundary (lemma L-STACK)."""
from __future__ import annotations

import ast

from .. import terms as tm
from ..loader import AnalysisError
from ..report import rule
from .common import module_constant, unparse
from ..resolve import Resolver
from ..terms import App, Attr, Idx, Lst, Range, Slc, Sym, Tup

STACK = "data_preparation.stack_training_data"


def stack_obligations(ctx):
    ana = ctx.ana
    fi = ana.func(STACK)
    b = ana.builder(fi, no_inline=ana.known)
    data, W = Sym(fi.params[0]), Sym(fi.params[1])
    T = Idx(Attr(data, "shape"), (tm.ZERO,))
    N = Idx(Attr(data, "shape"), (tm.ONE,))
    rows = tm.add(tm.add(T, tm.neg(W)), 1)
    cols = tm.mul(N, W)
    cfg = ana.cfg(fi)
    rets = [n for n in cfg.nodes if n.kind == "stmt" and isinstance(n.ast, ast.Return)]
    if not ctx.check(len(rets) == 1 and not cfg.guards(rets[0]), fi, "a single unconditional return (no special-cased input sizes)",
                     role="single-return", expected="one return", found=f"{len(rets)} return(s)" + ("" if len(rets) != 1 else ", guarded")):
        return
    rt = b.return_term()
    if not isinstance(rt, Sym):
        raise AnalysisError(f"stacker returns {str(rt)[:80]}: only the allocate-and-fill idiom is modelled")
    name = rt.name
    defs = [n for n in cfg.nodes if n.kind == "stmt" and isinstance(n.ast, ast.Assign) and name in n.defs]
    if len(defs) != 1:
        raise AnalysisError("stacked array is not allocated by a single assignment")
    alloc = b.term(defs[0].ast.value, defs[0])
    shp = None
    if isinstance(alloc, App) and alloc.fn in ("numpy.zeros", "numpy.empty"):
        shp = alloc.args[0] if alloc.args else alloc.kwarg("shape")
    dt = alloc.kwarg("dtype") if isinstance(alloc, App) else None
    ok = isinstance(shp, (Lst, Tup)) and len(shp.elems) == 2 and shp.elems[0] == rows and shp.elems[1] == cols and \
        (dt is None or str(dt) in ("numpy.float64", "builtins.float"))
    ctx.check(ok, fi, "target is allocated (T - W + 1) x (N * W), float64", line=defs[0].lineno, role="alloc",
              expected=f"numpy.zeros([{rows}, {cols}])", found=str(alloc))
    # an assertion about array *contents* can fail for valid data (np.array_equal is False wherever a NaN sits): assertions in the
    # stacker may compare shapes and counts only
    for n_ in Resolver.walk_own(fi.node):
        if isinstance(n_, ast.Assert):
            calls_ = [c_ for c_ in ast.walk(n_.test) if isinstance(c_, ast.Call)]
            bad_ = [c_ for c_ in calls_ if not (isinstance(c_.func, ast.Name) and c_.func.id in ("len", "int", "isinstance", "range"))]
            if bad_:
                ctx.unrecognised(fi, f"`assert {unparse(n_.test, 60)}` evaluates a call on array contents: that it holds for every finite or non-finite "
                                 "input is not derived here", line=n_.lineno, role="assert:contents")
    stores = [s for s in b.stores() if s.base_name == name]
    others = [m for m in b.mutated.get(name, []) if not isinstance(m, ast.Assign)]
    if not ctx.check(len(stores) == 1 and not others, fi, "the target is written by exactly one store", role="single-store",
                     expected="out[i, jN:(j+1)N] = data[i+j, :]", found=f"{len(stores)} store(s), {len(others)} other mutation(s)"):
        return
    s = stores[0]
    ctx.check(s.aug is None and s.guards == tm.TRUE, fi, "the store is a plain unconditional assignment (a copy, no arithmetic on the value)",
              line=s.stmt.lineno, role="pure-copy", expected="=", found=(s.aug or "=") + f" if {s.guards}")
    loops = s.loops
    if any(not (isinstance(lp, ast.For) and isinstance(lp.target, ast.Name)) for lp in loops):
        raise AnalysisError("stacking loops do not iterate plain index variables: outside the two recognised shapes")
    rngs = {}
    for lp in loops:
        if isinstance(lp, ast.For) and isinstance(lp.target, ast.Name):
            rngs[lp.target.id] = b.loop_range(lp)
    if len(loops) == 2 and len(s.idx) == 2:
        iv, jv = (Sym(loops[0].target.id), Sym(loops[1].target.id))
        ri, rj = rngs.get(iv.name), rngs.get(jv.name)
        # which loop variable indexes the rows?
        if s.idx[0] == jv:
            iv, jv, ri, rj = jv, iv, rj, ri
        ctx.check(s.idx[0] == iv and ri == Range(0, rows), fi, "row index i runs over range(T - W + 1)", line=s.stmt.lineno, role="rows",
                  expected=f"{iv} in {Range(0, rows)}", found=f"{s.idx[0]} with {iv} in {ri}")
        ctx.check(rj == Range(0, W), fi, "window slot j runs over range(W)", line=s.stmt.lineno, role="slots", expected=str(Range(0, W)), found=str(rj))
        sl = s.idx[1]
        ok_sl = isinstance(sl, Slc) and sl.step is None and sl.lo == tm.mul(jv, N) and sl.hi == tm.mul(tm.add(jv, 1), N)
        ctx.check(ok_sl, fi, "column block j is [jN, (j+1)N): the blocks tile [0, NW) (contiguous, disjoint, from 0 to N*W)",
                  line=s.stmt.lineno, role="tiling", expected=f"[{jv}*N : ({jv}+1)*N]", found=str(sl))
        want_v = [Idx(data, (tm.add(iv, jv), Slc())), Idx(data, (tm.add(iv, jv),))]
        ctx.check(s.value in want_v, fi, "the block receives input row i + j, all N columns", line=s.stmt.lineno, role="source-row",
                  expected=f"{data}[{iv} + {jv}, :]", found=str(s.value))
        # max(i + j) = (T - W) + (W - 1) = T - 1
        mx = tm.add(tm.add(rows, -1), tm.add(W, -1))
        ctx.check(mx == tm.add(T, -1), fi, "largest source row is T - 1 (inside the input)", role="source-bound", expected=str(tm.add(T, -1)), found=str(mx))
    elif len(loops) == 1 and len(s.idx) == 2:
        jv = Sym(loops[0].target.id)
        rj = rngs.get(jv.name)
        ctx.check(rj == Range(0, W), fi, "window slot j runs over range(W)", line=s.stmt.lineno, role="slots", expected=str(Range(0, W)), found=str(rj))
        full = isinstance(s.idx[0], Slc) and s.idx[0].lo is None and s.idx[0].hi is None
        sl = s.idx[1]
        ok_sl = full and isinstance(sl, Slc) and sl.step is None and sl.lo == tm.mul(jv, N) and sl.hi == tm.mul(tm.add(jv, 1), N)
        ctx.check(ok_sl, fi, "column block j is [jN, (j+1)N) for all rows", line=s.stmt.lineno, role="tiling", expected=f"[:, {jv}*N : ({jv}+1)*N]", found=f"{s.idx[0]}, {sl}")
        want = [Idx(data, (Slc(jv, tm.add(jv, rows)), Slc())), Idx(data, (Slc(jv, tm.add(jv, rows)),))]
        ctx.check(s.value in want, fi, "the block receives input rows j .. j + (T - W)", line=s.stmt.lineno, role="source-row",
                  expected=f"{data}[{jv} : {jv} + T - W + 1, :]", found=str(s.value))
    else:
        raise AnalysisError("stacking loop nest is outside the two recognised shapes (i,j double loop / per-slot block copy)")


@rule("C10", "R1", "RANGE", "stacking copies input row i+j into column block j of row i, for all i < T-W+1, j < W", floor=6)
def r1(ctx):
    stack_obligations(ctx)


@rule("C10", "R2", "FLOW", "multi-series stacking is the row-wise concatenation of the individual stackings")
def r2(ctx):
    from . import c07
    ctx.sub(c07.r1, only=("per-series",), drop=("per-series:",))   # the stacker itself; what the front end hands to it is C07's


@rule("C10", "R3", "TERM", "split by cumulative stacked lengths and padding with W-1 markers restore one list per series", floor=3)
def r3(ctx):
    from . import c04
    ctx.sub(c04.r1)
    ctx.sub(c04.r3)
    ctx.sub(c04.r4, only=("assembly",))     # each part is padded with the run's own window size (not a default)


@rule("C10", "R4", "PURE", "stacking, splitting and padding depend on their arguments only (no module-level tables or caches)", floor=1, evidence=True)
def r4(ctx):
    ana = ctx.ana
    from .c14 import module_state_writes
    mod = ana.prog.modules.get("fast_ticc.data_preparation")
    if mod is None:
        raise AnalysisError("module fast_ticc.data_preparation not found")
    writes = [(f, n, w) for f, n, w in module_state_writes(ana) if f.module is mod]
    for f, n, w in writes:
        ctx.fail(f, f"module-level state in the data-preparation helpers: {w}", line=getattr(n, "lineno", 0), role=f"module-state:{w}",
                 expected="pure functions of (data, window size)")
    reads = []
    for f in [x for x in ana.prog.functions.values() if x.module is mod]:
        locs = ana.res.local_names(f)
        for n in ast.walk(f.node):
            if isinstance(n, ast.Name) and isinstance(n.ctx, ast.Load) and n.id not in locs and n.id in mod.globals:
                if not module_constant(mod, n.id):
                    reads.append((f, n))
    for f, n in reads:
        ctx.fail(f, f"`{n.id}` is a module-level variable read by a data-preparation helper (results would depend on earlier calls)",
                 line=n.lineno, role=f"module-read:{n.id}", expected="no module-level mutable")
    if not writes and not reads:
        ctx.ok(mod.name, "no data-preparation helper reads or writes module-level mutable state", role="pure")
