"""One module per property; importing a module registers its rules."""
import importlib
import os

_loaded = False


def load_all():
    global _loaded
    if _loaded:
        return
    here = os.path.dirname(__file__)
    for fn in sorted(os.listdir(here)):
        if fn.startswith("c") and fn.endswith(".py") and fn[1:3].isdigit():
            importlib.import_module(f"{__name__}.{fn[:-3]}")
    _loaded = True
