"""C11 - compressed-matrix and Toeplitz-class index maps are exact bijections (L-CIDX, L-SIZE, L-TOEP)."""
from __future__ import annotations

import ast

from .. import terms as tm
from ..loader import AnalysisError
from ..report import rule
from ..resolve import Resolver
from ..terms import App, Attr, Comp, Idx, Poly, PW, Range, Sym, Tup
from .common import calls_to, unparse

UV = "admm.unique_values."
MC = "matrix_compression."


def rank_poly(r, c, n):
    """row-major rank of (r, c), r <= c < n, in the upper triangle:  n*r - r(r+1)/2 + c"""
    return tm.add(tm.add(tm.mul(n, r), tm.neg(tm.div(tm.mul(r, tm.add(r, 1)), 2))), c)


@rule("C11", "R1", "TERM", "_compressed_index(r, c, n) is the row-major rank polynomial; out-of-triangle arguments raise", floor=2)
def r1(ctx):
    ana = ctx.ana
    fi = ana.func(UV + "_compressed_index")
    b = ana.builder(fi)
    rt = b.return_term()
    r, c, n = (Sym(p) for p in fi.params)
    want = rank_poly(r, c, n)
    ok = rt in (tm.to_int(want), want)
    ctx.check(ok, fi, "closed form equals n*r - r(r+1)/2 + c for all r, c, n (polynomial identity)", role="rank",
              expected=str(tm.to_int(want)), found=str(rt))
    cfg = ana.cfg(fi)
    raises = [x for x in cfg.nodes if x.kind == "stmt" and isinstance(x.ast, ast.Raise)]
    okr = False
    for x in raises:
        g = b.guard_term(x)
        if g == tm.compare("<", c, r):
            okr = True
    ctx.check(okr, fi, "arguments below the diagonal (c < r) raise instead of returning an index", role="guard",
              expected=f"if {c} < {r}: raise", found=f"{len(raises)} raise statement(s)")
    # helpers are memoised by functools.cache only (pure lookup): module-level tables are C14.R6's subject


@rule("C11", "R2", "TERM", "_full_matrix_size inverts n(n+1)/2 and the solver allocates n(n+1)/2 entries", floor=2)
def r2(ctx):
    ana = ctx.ana
    fi = ana.func(MC + "_full_matrix_size")
    b = ana.builder(fi)
    rt = b.return_term()
    f = Sym(fi.params[0])
    n = Sym("n")
    sub = tm.substitute(rt, {f.key: tm.div(tm.mul(n, tm.add(n, 1)), 2)})
    ok = sub in (n, App("int", (n,)))
    ctx.check(ok, fi, "size(n(n+1)/2) == n for every n (8f+1 = (2n+1)^2; exact square root of a perfect square < 2^53)",
              role="inverse", expected="n", found=f"{rt}  at f=n(n+1)/2 -> {sub}")
    solver = ana.func("admm.solver.run_admm_optimization")
    bs = ana.builder(solver, no_inline=ana.known)
    cfg = ana.cfg(solver)
    rd = ana.rd(solver)
    args = Sym(solver.params[0])
    NW = tm.mul(Attr(args, "window_size"), Attr(args, "num_data_series"))
    want = tm.to_int(tm.div(tm.mul(NW, tm.add(NW, 1)), 2))
    from .common import alloc_dims
    # the state vectors are whatever reaches the first X update as (u, z) and the returned x: their definitions before the loop
    ux = calls_to(ana, solver, ana.func("admm.solver.admm_update_x").qualname)
    if not ux:
        raise AnalysisError("run_admm_optimization does not call admm_update_x")
    node = cfg.node_of(ux[0].node)
    loops = cfg.enclosing_loops(node)
    if not loops:
        raise AnalysisError("the X update is not inside the iteration loop")
    init = cfg.for_init[id(loops[0])]
    names = sorted({a.id for a in list(ux[0].node.args) + [k.value for k in ux[0].node.keywords] if isinstance(a, ast.Name)} | ({node.ast.targets[0].id} if isinstance(node.ast, ast.Assign) and isinstance(node.ast.targets[0], ast.Name) else set()))
    state = []
    for nm in names:
        for d in rd.reaching(init, nm):
            if d.kind == "entry":
                continue
            t = bs._def_term(nm, d)
            if isinstance(t, App) and t.fn == "numpy.zeros":
                state.append((nm, t))
    ok = len(state) >= 3 and all(alloc_dims(t) == [want] for _n, t in state)
    ctx.check(ok, solver, "the ADMM state vectors have NW(NW+1)/2 entries", role="state-size", expected=f"numpy.zeros({want})",
              found="; ".join(f"{nm}={t}" for nm, t in state)[:200])


@rule("C11", "R3", "AGREE", "compress and reinflate use one triangle-index table for the same size", floor=3)
def r3(ctx):
    ana = ctx.ana
    tri = ana.func(MC + "_upper_triangle_indices")
    bt = ana.builder(tri)
    t = bt.return_term()
    size = Sym(tri.params[0])
    if isinstance(t, Tup) and len(t.elems) == 2 and all(isinstance(e, Idx) and e.idx == (tm.const(k),) for k, e in enumerate(t.elems)) \
            and t.elems[0].base == t.elems[1].base:
        t = t.elems[0].base          # (x[0], x[1]) of the pair x that numpy.triu_indices returns
    ok = isinstance(t, App) and t.fn == "numpy.triu_indices" and t.args == (size,) and (not t.kw or t.kwarg("k") == tm.ZERO)
    ctx.check(ok, tri, "the table is numpy.triu_indices(size) unchanged (row-major upper triangle incl. diagonal)", role="table",
              expected=f"numpy.triu_indices({size})", found=str(t))
    nin = lambda f: f is tri
    comp = ana.func(MC + "compress_matrix")
    bc = ana.builder(comp, no_inline=nin)
    rt = bc.return_term()
    M = Sym(comp.params[0])
    want = Idx(M, (App(tri.qualname, (Idx(Attr(M, "shape"), (tm.ZERO,)),)),))
    ctx.check(rt == want, comp, "compress gathers matrix[table(n)] with n the matrix size", role="compress", expected=str(want), found=str(rt)[:140])
    from .c03 import scatter_site
    unc = scatter_site(ana)      # the scatter helper, or reinflate_matrix when the helper was folded into it
    fsize_ = ana.func(MC + "_full_matrix_size")
    bu = ana.builder(unc, no_inline=lambda f: nin(f) or f is fsize_ or f.qualname.endswith("_full_matrix_size"))
    v = Sym(unc.params[0])
    stores = bu.stores()
    szt = App(ana.func(MC + "_full_matrix_size").qualname, (Idx(Attr(v, "shape"), (tm.ZERO,)),))
    ok = len(stores) == 1 and stores[0].idx == (App(tri.qualname, (szt,)),) and stores[0].value == v and stores[0].aug is None
    ctx.check(ok, unc, "reinflate scatters the vector at table(size(len(vector))) of a zero matrix", role="scatter",
              expected=f"square[table({szt})] = {v}", found="; ".join(f"[{s.idx}] = {s.value}" for s in stores)[:200])
    if stores:
        cfg = ana.cfg(unc)
        nm = stores[0].base_name
        d = [x for x in cfg.nodes if x.kind == "stmt" and isinstance(x.ast, ast.Assign) and nm in x.defs]
        al = bu.term(d[0].ast.value, d[0]) if len(d) == 1 else None
        shp = al.kwarg("shape") if isinstance(al, App) and al.kwarg("shape") is not None else (al.args[0] if isinstance(al, App) and al.args else None)
        ok = isinstance(al, App) and al.fn == "numpy.zeros" and isinstance(shp, Tup) and shp.elems == (szt, szt)
        ctx.check(ok, unc, "the scatter target is a size x size zero matrix", role="scatter:alloc", expected=f"numpy.zeros(({szt}, {szt}))", found=str(al))
    # mirror: C03.R3
    from .c03 import reinflate_symmetry
    reinflate_symmetry(ctx)


@rule("C11", "R4", "TERM", "class (b, r, c) sits at (kN + r, (b+k)N + c) for k in [0, W-b)", floor=3)
def r4(ctx):
    ana = ctx.ana
    fi = ana.func(UV + "_block_start_coordinates")
    b = ana.builder(fi)
    rt = b.return_term()
    bid, N, W = (Sym(p) for p in fi.params)
    ok = isinstance(rt, Comp) and not rt.conds and rt.iter == Range(0, tm.add(W, tm.neg(bid)))
    if ok:
        k = rt.var
        ok = rt.elt == Tup([tm.mul(k, N), tm.add(tm.mul(bid, N), tm.mul(k, N))])
    ctx.check(ok, fi, "block b occurs at corners (kN, (b+k)N) for k in [0, W-b): exactly W-b occurrences", role="corners",
              expected=f"[(k*N, (b+k)*N) for k in range({W} - {bid})]", found=str(rt)[:200])
    loc = ana.func(UV + "_unique_variable_locations")
    bl = ana.builder(loc)
    rl = bl.return_term()
    pb, pr, pc, pN, pW = (Sym(p) for p in loc.params)
    ok = isinstance(rl, Comp) and not rl.conds and rl.iter == Range(0, tm.add(pW, tm.neg(pb)))
    ctx.check(isinstance(rl, Comp) and rl.kind == "list", loc, "the position list is a list (it is traversed more than once by the (row, column) form; "
              "a generator would be exhausted after the first traversal)", role="positions:reusable", expected="a list", found=getattr(rl, "kind", type(rl).__name__))
    if ok:
        k = rl.var
        ok = rl.elt == Tup([tm.add(tm.mul(k, pN), pr), tm.add(tm.add(tm.mul(pb, pN), tm.mul(k, pN)), pc)])
    ctx.check(ok, loc, "positions of class (b, r, c) are corner + (r, c)", role="positions",
              expected="[(k*N + r, (b+k)*N + c) for k in range(W - b)]", found=str(rl)[:200])
    # guards of the corner helper: valid block ids only
    cfg = ana.cfg(fi)
    raises = [x for x in cfg.nodes if x.kind == "stmt" and isinstance(x.ast, ast.Raise)]
    ctx.check(len(raises) >= 1, fi, "invalid block ids are rejected", role="corner-guards", found=f"{len(raises)} raise(s)")
    # guard census: the guards are Boolean combinations of comparisons of (block id, N, W) with small constants, so their truth is
    # constant between consecutive thresholds; a grid reaching two past the largest constant visits every sign pattern.
    guards = [(x, b.guard_term(x)) for x in raises]
    consts = [abs(int(c.value)) for _x, g in guards for c in tm.subterms(g) if isinstance(c, tm.Lit) and isinstance(c.value, int) and not isinstance(c.value, bool)]
    for _x, g in guards:
        for c in tm.subterms(g):
            if isinstance(c, tm.Cmp):
                consts += [abs(int(co)) for _m, co in c.poly.terms if co.denominator == 1]
    top = min(max(consts + [1]) + 2, 8)
    grid = range(-top, top + 2)
    rejected_valid, undecided, missed = None, None, None
    for vb in grid:
        for vn in grid:
            for vw in grid:
                env = {bid.key: tm.const(vb), N.key: tm.const(vn), W.key: tm.const(vw)}
                vals = [tm.truth(tm.substitute(g, env)) for _x, g in guards]
                valid = 0 <= vb < vw and vn >= 1
                if any(v is None for v in vals):
                    undecided = undecided or (vb, vn, vw)
                elif valid and any(vals):
                    rejected_valid = rejected_valid or ((vb, vn, vw), guards[vals.index(True)][0])
                elif not valid and vn >= 1 and vw >= 1 and not any(vals):
                    missed = missed or (vb, vn, vw)
    if undecided is not None:
        raise AnalysisError(f"a guard of _block_start_coordinates is not a comparison of its parameters with constants (undecided at {undecided})")
    ctx.check(rejected_valid is None, fi, "the guards reject no valid (block id, N, W): 0 <= block id < W, N >= 1 (a window of one block is legal)",
              line=rejected_valid[1].ast.lineno if rejected_valid else None, role="corner-guards:accept-valid", expected="no raise for valid arguments",
              found=f"(block_id, N, W) = {rejected_valid[0]} raises" if rejected_valid else "")
    ctx.check(missed is None, fi, "every block id outside [0, W) is rejected", role="corner-guards:reject-invalid",
              expected="raise", found=f"(block_id, N, W) = {missed} passes" if missed else "")


@rule("C11", "R5", "AGREE", "the compressed and the (row, column) form of a class list name the same positions", floor=2)
def r5(ctx):
    ana = ctx.ana
    lc = ana.func(UV + "locations_compressed")
    b = ana.builder(lc)
    rt = b.return_term()
    pb, pr, pc, pN, pW = (Sym(p) for p in lc.params)
    ok = isinstance(rt, Comp) and not rt.conds and rt.iter == Range(0, tm.add(pW, tm.neg(pb)))
    if ok:
        k = rt.var
        R = tm.add(tm.mul(k, pN), pr)
        C = tm.add(tm.add(tm.mul(pb, pN), tm.mul(k, pN)), pc)
        want = tm.to_int(rank_poly(R, C, tm.mul(pN, pW)))
        ok = rt.elt in (want,)
    ctx.check(ok, lc, "compressed form = rank(kN + r, (b+k)N + c; n = N*W) over the same k-range", role="compressed",
              expected="[int(rank(k*N + r, (b+k)*N + c, N*W)) for k in range(W - b)]", found=str(rt)[:220])
    ls = ana.func(UV + "locations_index_slices")
    bs = ana.builder(ls)
    rs = bs.return_term()
    qb, qr, qc, qN, qW = (Sym(p) for p in ls.params)
    ok = isinstance(rs, Tup) and len(rs.elems) == 2 and all(isinstance(e, Comp) and not e.conds and e.iter == Range(0, tm.add(qW, tm.neg(qb))) for e in rs.elems)
    if ok:
        rows, cols = rs.elems
        ok = rows.elt == tm.add(tm.mul(rows.var, qN), qr) and cols.elt == tm.add(tm.add(tm.mul(qb, qN), tm.mul(cols.var, qN)), qc)
    ctx.check(ok, ls, "(rows, cols) form = unzip of the same positions over the same k-range", role="slices",
              expected="([k*N + r ...], [(b+k)*N + c ...]) for k in range(W - b)", found=str(rs)[:220])
    # memoisation: functools.cache only
    for f in (lc, ls, ana.func(UV + "_compressed_index"), ana.func(MC + "_upper_triangle_indices")):
        decs = [unparse(d) for d in f.decorators]
        ctx.check(decs == ["functools.cache"] or decs == ["functools.lru_cache(maxsize=None)"], f,
                  "memoised by functools.cache (keyed on all arguments)", role="memo", expected="@functools.cache", found=", ".join(decs))
