"""NUM patterns shared by C03 / C05 / C16: where a log-determinant comes from."""
from __future__ import annotations

from .. import terms as tm
from ..terms import App, Idx, Poly


def logdet_form(t, M=None):
    """Classify a term that is used as log det M.
    Returns ("ok", how) | ("bad", why) | ("unknown", str)."""
    subs = list(tm.subterms(t))
    for x in subs:
        if isinstance(x, App) and x.fn == "log" and x.args:
            inner = list(tm.subterms(x.args[0]))
            if any(isinstance(y, App) and y.fn in ("numpy.linalg.det", "scipy.linalg.det") for y in inner):
                return ("bad", "log(det(M)): the determinant under/overflows for NW in the hundreds although M is positive definite")
            if any(isinstance(y, App) and y.fn in ("numpy.prod", "numpy.product", "math.prod") for y in inner):
                return ("bad", "log(prod(...)): the product under/overflows like the determinant itself")
    if isinstance(t, Idx) and isinstance(t.base, App) and t.base.fn in ("numpy.linalg.slogdet",) and t.idx != (tm.ONE,):
        return ("bad", f"slogdet(M)[{', '.join(map(str, t.idx))}] is not the log-determinant (element 1 is)")
    if isinstance(t, Idx) and isinstance(t.base, App) and t.base.fn in ("numpy.linalg.slogdet",) and t.idx == (tm.ONE,):
        if M is None or (t.base.args and t.base.args[0] == M):
            return ("ok", "slogdet(M)[1]")
        return ("bad", f"slogdet of {t.base.args[0] if t.base.args else '?'} instead of {M}")
    # batched: slogdet(asarray([M_j for j ...]))[1][k]  is  slogdet(M_k)[1]
    if isinstance(t, Idx) and len(t.idx) == 1 and isinstance(t.base, Idx) and t.base.idx == (tm.ONE,) and isinstance(t.base.base, App) \
            and t.base.base.fn == "numpy.linalg.slogdet" and t.base.base.args:
        stack = t.base.base.args[0]
        if isinstance(stack, App) and stack.fn in ("numpy.asarray", "numpy.array", "numpy.stack") and stack.args:
            stack = stack.args[0]
        if isinstance(stack, tm.Comp) and not stack.conds:
            Mk = tm.index(stack, (t.idx[0],))
            if M is None or Mk == M:
                return ("ok", "slogdet(stack of M_j)[1][k]")
            return ("bad", f"batched slogdet of {Mk} instead of {M}")
    # 2 * sum(log(diag(cholesky(M))))
    if isinstance(t, Poly) and len(t.terms) == 1 and t.terms[0][1] == 2 and len(t.terms[0][0]) == 1:
        a = t.terms[0][0][0][0]
        if isinstance(a, App) and a.fn == "numpy.sum" and a.args and isinstance(a.args[0], App) and a.args[0].fn == "log":
            d = a.args[0].args[0]
            if isinstance(d, App) and d.fn in ("numpy.diag", "diagonal", "numpy.diagonal") and d.args and isinstance(d.args[0], App) \
                    and d.args[0].fn == "numpy.linalg.cholesky":
                if M is None or d.args[0].args[0] == M:
                    return ("ok", "2*sum(log(diag(cholesky(M))))")
    return ("unknown", str(t)[:120])
