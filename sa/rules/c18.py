"""C18 - equivalent parameter forms give identical results."""
from __future__ import annotations

import ast
from typing import Dict, List, Set, Tuple

from .. import terms as tm
from ..loader import AnalysisError, FuncInfo
from ..report import rule
from ..resolve import Resolver
from ..terms import App, Comp, Idx, Poly, PW, Sym, Tup
from .common import Flow, bind_args, callee_fq, short, unparse

HYPER = {"sparsity_weight", "label_switching_cost", "min_meaningful_covariance"}
ARG_CLASSES = ("fast_ticc.containers.arguments.UserArguments", "fast_ticc.containers.arguments.ADMMArguments")
VALUE_CALLS = {"builtins.float", "builtins.int", "builtins.abs", "numpy.asarray", "numpy.array", "numpy.float64",
               "numpy.copy", "numpy.abs", "numpy.squeeze", "numpy.atleast_1d", "numpy.atleast_2d"}
REAL_OK_NAMES = {"numbers.Real", "numbers.Number", "numbers.Complex"}
DISPATCH_SITES = {"admm.solver.compute_lambda_sum"}      # confirmed by reading: the only place where scalar and matrix lambda part ways


def tainted_params(ana) -> Dict[str, Set[str]]:
    """function qualname -> parameters that may carry a user hyper-parameter of HYPER
    (propagated through direct calls, constructor keywords and apply_async argument lists)."""
    taint: Dict[str, Set[str]] = {}
    for fe in ("front_end.ticc_labels", "front_end.ticc_joint_labels", "admm.front_end.admm_optimize_theta"):
        fi = ana.func(fe)
        taint[fi.qualname] = {p for p in fi.params if p in HYPER}
    changed = True
    rounds = 0
    while changed and rounds < 20:
        changed = False
        rounds += 1
        for fi in ana.prog.functions.values():
            fl = None
            for cs in ana.res.calls(fi):
                if not isinstance(cs.node, ast.Call) or cs.callee.func is None:
                    continue
                callee = cs.callee.func
                pairs = []
                if cs.indirect:
                    # pool.apply_async(f, [a0, a1, ...], {...})
                    lst = cs.node.args[1] if len(cs.node.args) > 1 else None
                    if isinstance(lst, ast.Name):
                        fl = fl or Flow(ana, fi)
                        d = fl.sole_def(lst.id, fl.at(lst))
                        lst = d.ast.value if d is not None and isinstance(d.ast, ast.Assign) else None
                    if isinstance(lst, (ast.List, ast.Tuple)):
                        pairs = list(zip(callee.own_params, lst.elts))
                else:
                    try:
                        ba = bind_args(callee, cs.node, skip_self=cs.callee.kind == "method_internal")
                    except AnalysisError:
                        # argument packs: the positional prefix binds as usual; a pack that may carry a hyper-parameter may hand it to
                        # any later parameter (over-approximation: never blind)
                        params = [p_ for p_ in callee.own_params if not (cs.callee.kind == "method_internal" and p_ in ("self", "cls"))]
                        pairs_, k_ = [], 0
                        for a_ in cs.node.args:
                            if isinstance(a_, ast.Starred):
                                pairs_ += [(p_, a_.value) for p_ in params[k_:]]
                                break
                            if k_ < len(params):
                                pairs_.append((params[k_], a_))
                            k_ += 1
                        for kw_ in cs.node.keywords:
                            pairs_ += [(kw_.arg, kw_.value)] if kw_.arg else [(p_, kw_.value) for p_ in params]
                        ba = dict()
                        pairs = pairs_
                        for p, a in pairs:
                            if is_tainted(ana, fi, a, taint):
                                s_ = taint.setdefault(callee.qualname, set())
                                if p not in s_:
                                    s_.add(p)
                                    changed = True
                        continue
                    pairs = list(ba.items())
                for p, a in pairs:
                    if is_tainted(ana, fi, a, taint):
                        s = taint.setdefault(callee.qualname, set())
                        if p not in s:
                            s.add(p)
                            changed = True
    return taint


def is_tainted(ana, fi: FuncInfo, e: ast.expr, taint) -> bool:
    fl = Flow(ana, fi)

    def value_preserving(call):
        r = ana.res.fq_of_expr(fi, call.func)
        return bool(r) and r[1] in VALUE_CALLS

    try:
        dep = fl.closure(e, descend_call=value_preserving)
    except AnalysisError:
        return False
    if dep.params & taint.get(fi.qualname, set()):
        return True
    for a in dep.attrs:
        if a.split(".")[-1] in HYPER:
            return True
    return False


def _type_names(ana, fi, t) -> List[str]:
    elts = t.elts if isinstance(t, ast.Tuple) else [t]
    out = []
    for e in elts:
        r = ana.res.fq_of_expr(fi, e)
        out.append(r[1] if r else unparse(e))
    return out


def _accepts_all_reals(names: List[str]) -> bool:
    s = set(names)
    if s & REAL_OK_NAMES:
        return True
    ints = bool(s & {"builtins.int", "numpy.integer", "numpy.number", "numbers.Integral"})
    floats = bool(s & {"builtins.float", "numpy.floating", "numpy.number"})
    np_int = bool(s & {"numpy.integer", "numpy.number", "numbers.Integral"})
    np_float = bool(s & {"numpy.floating", "numpy.number"})
    return ints and floats and np_int and np_float


def _size_of_hyper(ana, fi, e, taint):
    """`len(h)`, `h.shape[0]`, `h.size`, `numpy.size(h)` of a user hyper-parameter h -> the expression h, else None."""
    if isinstance(e, ast.Call) and len(e.args) == 1 and not e.keywords:
        r = ana.res.fq_of_expr(fi, e.func)
        if r and r[1] in ("builtins.len", "numpy.size") and is_tainted(ana, fi, e.args[0], taint):
            return e.args[0]
    if isinstance(e, ast.Subscript) and isinstance(e.value, ast.Attribute) and e.value.attr == "shape" and unparse(e.slice) == "0" \
            and is_tainted(ana, fi, e.value.value, taint):
        return e.value.value
    if isinstance(e, ast.Attribute) and e.attr == "size" and is_tainted(ana, fi, e.value, taint):
        return e.value
    return None


def _shape_validations(ctx, ana, taint):
    """A validation that raises on the *length* of an array-valued hyper-parameter narrows the set of accepted array forms.  The vector
    form of the switching cost has one entry per stacked row (T - W + 1 for a series of T points): a guard that demands any other
    length rejects the very vector that is equivalent to the scalar.  Decided for the single-series front end, where the demanded
    length is a polynomial in T and W; any other length validation on a hyper-parameter is undecided."""
    for fi in ana.prog.functions.values():
        raises = [n for n in Resolver.walk_own(fi.node) if isinstance(n, ast.Raise)]
        if not raises:
            continue
        try:
            cfg = ana.cfg(fi)
        except AnalysisError:
            continue
        for x in cfg.nodes:
            if x.kind != "stmt" or not isinstance(x.ast, ast.Raise):
                continue
            for test, _pol, owner in cfg.guards(x):
                for cmp_ in ast.walk(test):
                    if not (isinstance(cmp_, ast.Compare) and len(cmp_.ops) == 1):
                        continue
                    sides = [cmp_.left, cmp_.comparators[0]]
                    hs = [_size_of_hyper(ana, fi, e, taint) for e in sides]
                    if hs[0] is None and hs[1] is None:
                        continue
                    other = sides[1] if hs[0] is not None else sides[0]
                    h = hs[0] if hs[0] is not None else hs[1]
                    if isinstance(other, ast.Constant) and other.value in (0, 1) and not isinstance(cmp_.ops[0], (ast.NotEq, ast.Eq)):
                        continue          # emptiness tests do not constrain the length of a filled vector
                    where = f"`{unparse(cmp_)}` guards the raise at line {x.ast.lineno} of {short(fi.qualname)}"
                    if short(fi.qualname) != "front_end.ticc_labels" or unparse(h) != "label_switching_cost" \
                            or not isinstance(cmp_.ops[0], ast.NotEq) or not _pol:
                        raise AnalysisError(f"{where}: a length validation on a user hyper-parameter; the accepted array forms cannot be derived here")
                    b = ana.builder(fi)
                    t = b.term(other, cfg.stmt_node[id(owner)])
                    T_ = tm.Idx(tm.Attr(Sym("data_series"), "shape"), (tm.ZERO,))
                    W_ = Sym("window_size")
                    rows = tm.add(tm.add(T_, tm.neg(W_)), tm.ONE)
                    sub = {}
                    for a in tm.subterms(t):
                        if str(a) in ("stacked_training_data.shape[0]", "len(stacked_training_data)"):
                            sub[a.key] = rows
                        elif str(a) == "len(data_series)":
                            sub[a.key] = T_
                    t2 = tm.substitute(t, sub) if sub else t
                    diff = tm.add(t2, tm.neg(rows))
                    if diff == tm.ZERO:
                        ctx.ok(fi, f"{where}: it demands one entry per stacked row, the length of the vector equivalent to a scalar", line=cmp_.lineno,
                               role="validate:lsc-length")
                        continue
                    atoms = {a.key for a in tm.subterms(diff) if isinstance(a, (Sym, tm.Idx, tm.Attr, App))} - \
                        {T_.key, W_.key, tm.Attr(Sym("data_series"), "shape").key, Sym("data_series").key}
                    if atoms or not isinstance(diff, (Poly, tm.Lit)):
                        raise AnalysisError(f"{where}: the demanded length `{t}` is not a polynomial in the series length and the window size")
                    ctx.fail(fi, f"{where}: a per-pair switching-cost vector has one entry per stacked row (T - W + 1); demanding `{t}` entries rejects "
                             "the vector that is equivalent to the scalar cost", line=cmp_.lineno, role="validate:lsc-length",
                             expected=str(rows), found=str(t))


@rule("C18", "R1", "DISPATCH", "type dispatch on a user hyper-parameter accepts every real scalar", floor=1, evidence=True)
def r1(ctx):
    ana = ctx.ana
    taint = tainted_params(ana)
    seen = 0
    for fi in ana.prog.functions.values():
        for n in Resolver.walk_own(fi.node):
            if isinstance(n, ast.Call) and isinstance(n.func, ast.Name) and n.func.id == "isinstance" and len(n.args) == 2:
                if not is_tainted(ana, fi, n.args[0], taint):
                    continue
                seen += 1
                names = _type_names(ana, fi, n.args[1])
                scalar_test = any(x in ("builtins.float", "builtins.int", "numpy.floating", "numpy.integer", "numpy.number",
                                        "numpy.float64", "numpy.float32", "numpy.int64", "numbers.Real", "numbers.Number",
                                        "numbers.Integral") for x in names)
                role = f"isinstance@{short(fi.qualname)}:{unparse(n.args[0], 30)}"
                if scalar_test:
                    ctx.check(_accepts_all_reals(names), fi, f"`{unparse(n)}` on a user hyper-parameter accepts int, float and NumPy scalars alike",
                              line=n.lineno, role=role, expected="numbers.Real / np.ndim(x) == 0 / np.isscalar(x) / (int, float, np.number)",
                              found=", ".join(names))
                else:
                    ctx.ok(fi, f"`{unparse(n)}` is an array test, not a scalar-kind test", role=role, line=n.lineno)
            elif isinstance(n, ast.Compare) and len(n.ops) == 1 and isinstance(n.ops[0], (ast.Is, ast.Eq, ast.IsNot, ast.NotEq)):
                sides = [n.left, n.comparators[0]]
                tcall = [s for s in sides if isinstance(s, ast.Call) and isinstance(s.func, ast.Name) and s.func.id == "type" and len(s.args) == 1]
                if tcall and is_tainted(ana, fi, tcall[0].args[0], taint):
                    seen += 1
                    ctx.fail(fi, f"`{unparse(n)}` dispatches on the exact type of a user hyper-parameter", line=n.lineno,
                             role=f"type-eq@{short(fi.qualname)}", expected="a test that accepts every real scalar", found=unparse(n))
            elif isinstance(n, ast.Call):
                r = ana.res.fq_of_expr(fi, n.func)
                if r and r[1] in ("numpy.ndim", "numpy.isscalar") and n.args and is_tainted(ana, fi, n.args[0], taint):
                    seen += 1
                    if short(fi.qualname) not in DISPATCH_SITES:
                        # a second place where the scalar and the array form part ways: that both branches compute the same thing is
                        # established for the confirmed sites only (C18.R2, C18.R3)
                        ctx.unrecognised(fi, f"`{unparse(n)}` separates the scalar from the array form of a hyper-parameter outside the confirmed dispatch site(s) "
                                         f"({', '.join(sorted(DISPATCH_SITES))}): agreement of the two branches is not derived here", line=n.lineno,
                                         role=f"{r[1]}@{short(fi.qualname)}")
                        continue
                    ctx.ok(fi, f"`{unparse(n)}` classifies every real scalar (Python or NumPy) as a scalar", line=n.lineno,
                           role=f"{r[1]}@{short(fi.qualname)}")
                if r and r[1] in ("builtins.hasattr", "builtins.getattr") and len(n.args) >= 2 and isinstance(n.args[1], ast.Constant) \
                        and n.args[1].value in ("shape", "ndim", "size", "dtype", "__len__", "__array__", "T", "flat") and is_tainted(ana, fi, n.args[0], taint):
                    seen += 1
                    ctx.fail(fi, f"`{unparse(n)}` is used as an array test on a user hyper-parameter, but NumPy scalars carry `.{n.args[1].value}` too: "
                             "np.float64(x) is treated as an array where float(x) is a scalar", line=n.lineno, role=f"hasattr@{short(fi.qualname)}",
                             expected="np.ndim(x) == 0 / np.isscalar(x)", found=unparse(n))
            if isinstance(n, ast.Compare) and len(n.ops) == 1 and isinstance(n.ops[0], (ast.Eq, ast.NotEq)):
                for side in (n.left, n.comparators[0]):
                    ty = ana.res.type_of(fi, side) if isinstance(side, (ast.Name, ast.Attribute)) else None
                    if ty in (("cls", c_) for c_ in ARG_CLASSES):
                        seen += 1
                        ctx.fail(fi, f"`{unparse(n)}` compares argument bundles field by field (dataclass equality): with an array-valued hyper-parameter the "
                                 "comparison has no truth value (ValueError) where the scalar form passes", line=n.lineno, role=f"bundle-eq@{short(fi.qualname)}",
                                 expected="no == / != on UserArguments / ADMMArguments", found=unparse(n))
                        break
    _shape_validations(ctx, ana, taint)
    # numeric-kind tests on dtype.kind: a test that lets floats or signed integers through must let every real kind through
    for fi in ana.prog.functions.values():
        for n in Resolver.walk_own(fi.node):
            if isinstance(n, ast.Compare) and len(n.ops) == 1 and isinstance(n.ops[0], (ast.In, ast.NotIn, ast.Eq, ast.NotEq)) \
                    and isinstance(n.left, ast.Attribute) and n.left.attr == "kind" and isinstance(n.left.value, ast.Attribute) and n.left.value.attr == "dtype":
                c_ = n.comparators[0]
                kinds = set(c_.value) if isinstance(c_, ast.Constant) and isinstance(c_.value, str) else \
                    {e.value for e in c_.elts if isinstance(e, ast.Constant) and isinstance(e.value, str)} if isinstance(c_, (ast.Tuple, ast.List, ast.Set)) else None
                if kinds is None or not (kinds & {"f", "i", "u"}):
                    continue
                seen += 1
                ctx.check({"f", "i", "u"} <= kinds, fi, f"`{unparse(n)}` tests for a real-valued dtype: floats, signed and unsigned integers alike", line=n.lineno,
                          role=f"dtype-kind@{short(fi.qualname)}", expected="all of 'f', 'i', 'u' (and 'b' if wanted)", found="".join(sorted(kinds)))
    if seen == 0:
        ctx.ok("package", "no type dispatch on a user hyper-parameter anywhere (nothing can reject a scalar form)", role="none")
    ctx.note(f"taint: {sum(len(v) for v in taint.values())} parameters in {len([k for k, v in taint.items() if v])} functions may carry "
             f"sparsity_weight / label_switching_cost / min_meaningful_covariance")


@rule("C18", "R2", "AGREE", "the scalar branch multiplies by exactly the number of positions the matrix branch sums over", floor=3)
def r2(ctx):
    ana = ctx.ana
    fi = ana.func("admm.solver.compute_lambda_sum")
    b = ana.builder(fi)
    rt = b.return_term()
    lam = Sym(fi.params[0])
    if not isinstance(rt, PW):
        raise AnalysisError(f"compute_lambda_sum is not a two-branch function any more: {str(rt)[:100]}")
    scalar = matrix = None
    for g, v in rt.pieces:
        gparts = g.parts if isinstance(g, tm.And) else [g]
        is_scalar_guard = any(isinstance(p_, tm.Cmp) and p_.op == "==" and any(isinstance(x, App) and x.fn == "numpy.ndim" for x in tm.subterms(p_))
                              or (isinstance(p_, App) and p_.fn in ("numpy.isscalar", "builtins.isinstance") and not any(
                                  isinstance(x, Sym) and x.name == "numpy.ndarray" for x in tm.subterms(p_))) for p_ in gparts)
        if is_scalar_guard:
            scalar = (g, v)
        else:
            matrix = (g, v) if matrix is None or any(isinstance(x, Idx) and x.base == lam for x in tm.subterms(v)) else matrix
    if len(rt.pieces) != 2:
        ctx.fail(fi, "compute_lambda_sum has more than the scalar and the matrix return", role="matrix:form",
                 expected="two branches", found=f"{len(rt.pieces)} return pieces")
        return
    if scalar is None or matrix is None:
        raise AnalysisError("scalar / matrix branches of compute_lambda_sum not recognised")
    # scalar: coefficient of lambda
    sv = scalar[1]
    lam_atoms = [lam, App("float", (lam,))]
    count = None
    for la in lam_atoms:
        if isinstance(sv, Poly) and all(any(a == la and e == 1 for a, e in m) for m, _ in sv.terms):
            count = tm.div(sv, la)
    ctx.check(count is not None, fi, "scalar branch is lambda times an occurrence count", role="scalar:form",
              expected="lambda * n", found=str(sv))
    mv = matrix[1]
    ok = isinstance(mv, App) and mv.fn == "numpy.sum" and len(mv.args) == 1 and isinstance(mv.args[0], Idx) and mv.args[0].base == lam \
        and len(mv.args[0].idx) == 2 and not mv.kw
    ctx.check(ok, fi, "matrix branch is numpy.sum(lambda[rows, cols])", role="matrix:form", expected="numpy.sum(lambda[rows, cols])", found=str(mv)[:140])
    if ok and count is not None:
        rows, cols = mv.args[0].idx
        lr, lc = tm.length(rows), tm.length(cols)
        ctx.check(lr == lc == count, fi, "number of summed positions equals the scalar branch's multiplier (class size W - b)",
                  role="agree:count", expected=str(count), found=f"len(rows)={lr}, len(cols)={lc}")
        W, bid = Sym(fi.params[5]), Sym(fi.params[1])
        ctx.check(count == tm.add(W, tm.neg(bid)), fi, "the multiplier is num_blocks - block_id", role="scalar:count",
                  expected=f"{W} - {bid}", found=str(count))
    # guards: scalar branch is taken for every zero-dimensional value; the matrix branch for arrays
    ctx.check(any(isinstance(x, App) and x.fn in ("numpy.ndim", "numpy.isscalar") or (isinstance(x, App) and x.fn == "builtins.isinstance")
                  for x in tm.subterms(scalar[0])), fi, "branch selection is a scalar-kind test on lambda", role="guard",
              found=str(scalar[0]))


@rule("C18", "R3", "TERM", "a scalar price and a constant per-pair vector become the same array inside the kernel")
def r3(ctx):
    from . import c01
    ctx.sub(c01.r5)


def _is_bare_hyper(ana, fi, e, taint, _depth=0) -> bool:
    """The expression is the hyper-parameter value itself (a tainted name / attribute), not yet widened."""
    if isinstance(e, ast.Name):
        fl = Flow(ana, fi)
        p = fl.resolves_to_param(e)
        if p is not None and p in taint.get(fi.qualname, set()):
            return True
        try:
            d = fl.sole_def(e.id, fl.at(e))
        except Exception:
            d = None
        if d is not None and d.kind == "stmt" and isinstance(d.ast, ast.Assign) and d.ast.value is not e and _depth < 3:
            return _is_bare_hyper(ana, fi, d.ast.value, taint, _depth + 1)      # a plain copy of the hyper-parameter
        return False
    if isinstance(e, ast.Attribute) and e.attr in HYPER:
        return ana.res.type_of(fi, e.value)[0] == "cls"
    return False


def _is_int_valued(ana, fi, e) -> bool:
    from ..resolve import T_INT
    if ana.res.type_of(fi, e) == T_INT:
        return True
    if isinstance(e, ast.Constant) and isinstance(e.value, int) and not isinstance(e.value, bool):
        return True
    if isinstance(e, ast.BinOp) and isinstance(e.op, (ast.Add, ast.Sub, ast.Mult)):
        return _is_int_valued(ana, fi, e.left) and _is_int_valued(ana, fi, e.right)
    if isinstance(e, ast.Name):
        fl = Flow(ana, fi)
        d = fl.sole_def(e.id, fl.at(e))
        if d is not None and d.kind == "stmt" and isinstance(d.ast, ast.Assign):
            return _is_int_valued(ana, fi, d.ast.value)
        if d is not None and d.kind == "entry":
            ann = fi.param_annotation(e.id)
            return ann is not None and unparse(ann) == "int"
    return False


@rule("C18", "R4", "DISPATCH", "scalar arithmetic on a raw hyper-parameter is done in Python/float64, never in the caller's NumPy scalar type", floor=1, evidence=True)
def r4(ctx):
    """A NumPy scalar keeps its dtype under scalar arithmetic: -np.uint8(1) wraps to 255, np.int8(50)*3 wraps,
    np.float16 rounds.  Arithmetic with a float64 array operand is promoted and is fine; scalar-only arithmetic must
    widen first (float(x))."""
    ana = ctx.ana
    taint = tainted_params(ana)
    seen = 0
    for fi in ana.prog.functions.values():
        if not taint.get(fi.qualname) and not any(isinstance(n, ast.Attribute) and n.attr in HYPER for n in Resolver.walk_own(fi.node)):
            continue
        for n in Resolver.walk_own(fi.node):
            if isinstance(n, ast.UnaryOp) and isinstance(n.op, (ast.USub, ast.Invert)) and _is_bare_hyper(ana, fi, n.operand, taint):
                seen += 1
                ctx.fail(fi, f"`{unparse(n)}` negates a raw hyper-parameter: an unsigned NumPy scalar wraps around "
                             "(np.uint8(1) -> 255), so the result depends on the scalar's dtype", line=n.lineno,
                         role=f"narrow:neg:{unparse(n.operand, 30)}", expected="compare magnitudes, or widen with float(x) first", found=unparse(n))
            elif isinstance(n, ast.BinOp) and isinstance(n.op, (ast.Mult, ast.Add, ast.Sub, ast.Pow)):
                for a, o in ((n.left, n.right), (n.right, n.left)):
                    if _is_bare_hyper(ana, fi, a, taint) and _is_int_valued(ana, fi, o):
                        seen += 1
                        ctx.fail(fi, f"`{unparse(n)}` combines a raw hyper-parameter with an integer in scalar arithmetic: "
                                     "a narrow NumPy scalar (int8, float16) wraps or rounds where a Python float does not",
                                 line=n.lineno, role=f"narrow:binop:{unparse(a, 30)}", expected="float(x) * n", found=unparse(n))
    # kind dispatch by exception: Python numbers raise TypeError when subscripted, NumPy scalars raise IndexError, so a handler for one
    # of them separates equivalent scalar forms; a format specification accepts every real scalar but no array
    for fi in ana.prog.functions.values():
        if not taint.get(fi.qualname) and not any(isinstance(n, ast.Attribute) and n.attr in HYPER for n in Resolver.walk_own(fi.node)):
            continue
        for tr in [n for n in Resolver.walk_own(fi.node) if isinstance(n, ast.Try)]:
            caught = {unparse(h.type) if h.type is not None else "BaseException" for h in tr.handlers}
            if not caught & {"TypeError", "IndexError"}:
                continue
            for st in tr.body:
                for n in ast.walk(st):
                    if isinstance(n, ast.Subscript) and _is_bare_hyper(ana, fi, n.value, taint):
                        seen += 1
                        ctx.fail(fi, f"`{unparse(n)}` subscripts a raw hyper-parameter inside `try ... except {', '.join(sorted(caught))}`: scalars are told from arrays by the "
                                     "exception they raise, and Python numbers (TypeError) and NumPy scalars (IndexError) raise different ones",
                                 line=n.lineno, role=f"narrow:subscript:{unparse(n.value, 30)}", expected="numpy.ndim(x) == 0 decides the kind", found=unparse(tr, 80))
        for n in Resolver.walk_own(fi.node):
            if isinstance(n, ast.FormattedValue) and n.format_spec is not None and _is_bare_hyper(ana, fi, n.value, taint) \
                    and any(isinstance(c_, ast.Constant) and str(c_.value).strip() for c_ in ast.walk(n.format_spec)):
                seen += 1
                ctx.fail(fi, f"a format specification is applied to the raw hyper-parameter `{unparse(n.value)}`: every real scalar accepts it, an array "
                             "raises TypeError (ndarray.__format__), so the array form fails where the scalar form runs",
                         line=n.lineno, role=f"narrow:format:{unparse(n.value, 30)}", expected="format without a numeric spec, or str(x)", found=unparse(n, 60))
    ok_sites = []
    for fi in ana.prog.functions.values():
        for n in Resolver.walk_own(fi.node):
            if isinstance(n, ast.Call) and isinstance(n.func, ast.Name) and n.func.id == "float" and n.args \
                    and _is_bare_hyper(ana, fi, n.args[0], taint):
                ok_sites.append((fi, n))
    for fi, n in ok_sites:
        ctx.ok(fi, f"`{unparse(n)}` widens the hyper-parameter before scalar arithmetic", line=n.lineno, role=f"widen@{short(fi.qualname)}")
    if not ok_sites and seen == 0:
        ctx.ok("package", "no scalar-only arithmetic on a raw hyper-parameter", role="none")


@rule("C18", "R5", "OWN", "a hyper-parameter object handed in by the caller is never edited in place (array forms must not diverge from scalar forms)", floor=2, evidence=True)
def r5(ctx):
    from .own import describe, ext_writes, ownership
    ana = ctx.ana
    for q in ("front_end.ticc_labels", "front_end.ticc_joint_labels", "admm.front_end.admm_optimize_theta"):
        fi = ana.func(q)
        oa = ownership(ana, q)
        for p in [p for p in fi.params if p in HYPER]:
            hits = [(m, objs) for m, objs in ext_writes(oa, p)]
            for m, objs in hits:
                ctx.fail(fi, f"hyper-parameter `{p}` may be modified in place at {describe(m)}: an array-valued form is changed where a scalar is only rebound",
                         role=f"inplace:{short(q)}:{p}:{short(m.func.qualname)}:{m.kind}", expected="new objects only", found=", ".join(map(str, objs))[:100])
            if not hits:
                ctx.ok(fi, f"`{p}` is never written in place along {short(q)}", role=f"inplace:{short(q)}:{p}")


def _scalar_kind(p) -> int:
    """+1: the guard says 'lambda is a scalar', -1: 'lambda is not a scalar / is an array', 0: unrelated."""
    if isinstance(p, tm.Cmp) and any(isinstance(x, App) and x.fn == "numpy.ndim" for x in tm.subterms(p)):
        return {"==": 1, "!=": -1, ">": -1, ">=": -1}.get(p.op, 0)
    if isinstance(p, tm.Not):
        return -_scalar_kind(p.arg)
    if isinstance(p, App) and p.fn == "numpy.isscalar":
        return 1
    if isinstance(p, App) and p.fn == "builtins.isinstance":
        arr = any(isinstance(x, Sym) and x.name == "numpy.ndarray" for x in tm.subterms(p))
        return -1 if arr else 1
    return 0


def _const_fill(t, lam):
    """Value of `t` when the array `lam` holds one value everywhere: numpy.sum(lam[rows, cols]) -> len(rows) * lam."""
    def f(x):
        if isinstance(x, App) and x.fn == "numpy.sum" and len(x.args) == 1 and not x.kw and isinstance(x.args[0], Idx) and x.args[0].base == lam:
            n = tm.length(x.args[0].idx[0])
            if n is not None:
                return tm.mul(n, lam)
        if isinstance(x, App) and x.fn in ("float", "builtins.float") and x.args == (lam,):
            return lam
        return None
    return tm.rewrite(t, f) if hasattr(tm, "rewrite") else _rewrite(t, f)


def _rewrite(t, f):
    r = f(t)
    if r is not None:
        return r
    if isinstance(t, Poly):
        out = tm.ZERO
        for mono, coef in t.terms:
            m = tm.as_term(coef)
            for a, e in mono:
                m = tm.mul(m, tm.power(_rewrite(a, f), e))
            out = tm.add(out, m)
        return out
    return t


@rule("C18", "R6", "AGREE", "the threshold Q that reaches the soft-threshold is one value for a scalar weight and for a matrix filled with it, on every path", floor=2)
def r6(ctx):
    ana = ctx.ana
    from . import c01, c02
    ctx.sub(c02.r11, only=("entry:plumbing", "entry:bundle", "entry:solver"))   # the weight reaches the solver as given (a "symmetrised" matrix differs from the scalar)
    ctx.sub(c01.r9, only=("handover:price",))            # the price reaches the kernel as given (no narrower buffer for one of the forms)
    fi = ana.func("admm.solver.admm_update_z")
    stp = ana.func("admm.solver.soft_threshold_prox")
    b = ana.builder(fi, no_inline=lambda f: f.qualname == stp.qualname)
    lam = tm.Attr(Sym(fi.params[0]), "sparsity_weight")
    thr_pos = 1
    qs = []
    for s in b.stores():
        if s.idx is None:
            continue
        for g0, v0 in tm.pieces_of(s.value):
            for x in tm.subterms(v0):
                if isinstance(x, App) and x.fn == stp.qualname:
                    q = x.args[thr_pos] if len(x.args) > thr_pos else x.kw.get(stp.params[thr_pos])
                    if q is not None:
                        qs.append((g0, q, s))
    if not qs:
        raise AnalysisError("no soft_threshold_prox application found in the Z update's stores")
    for g0, q, s in qs:
        leaves = []
        for g, v in tm.pieces_of(q):
            parts = []
            for gg in (g0, g):
                parts += list(gg.parts) if isinstance(gg, tm.And) else [gg]
            kinds = {_scalar_kind(p) for p in parts} - {0}
            if kinds == {1, -1}:
                continue   # infeasible: scalar and not scalar at once
            leaves.append((kinds, v))
        vals = {}
        for kinds, v in leaves:
            cv = _const_fill(v, lam)
            vals.setdefault(cv.key, (cv, []))[1].append("scalar" if kinds == {1} else "matrix" if kinds == {-1} else "any")
        forms = sorted({k for _, ks in vals.values() for k in ks})
        ctx.check(len(vals) == 1, fi, "every form of the sparsity weight yields the same threshold Q (matrix evaluated at a constant fill)",
                  line=s.stmt, role="Q:forms-agree", expected="one value over " + "/".join(forms),
                  found="; ".join(f"{'/'.join(ks)}: {cv}" for cv, ks in vals.values())[:300])
        only = next(iter(vals.values()))[0]
        ctx.check(any(x == lam for x in tm.subterms(only)), fi, "that value depends on the user's sparsity weight", line=s.stmt,
                  role="Q:uses-lambda", found=str(only)[:120])
