"""L0: parse the package and index modules, classes and functions.

Nothing of /repo is imported or executed: every fact is read from `ast`.
"""
from __future__ import annotations

import ast
import hashlib
import os
import re
from dataclasses import dataclass, field
from typing import Dict, List, Optional


def _split_parallel_assignments(tree):
    """`a, b = x, y` (two literal tuples of the same length, plain-name targets, no target read on the right) is `a = x; b = y` -
    at module level too, where the loader's tables of global bindings are built."""
    for n in ast.walk(tree):
        for fld in ("body", "orelse", "finalbody"):
            lst = getattr(n, fld, None)
            if not (isinstance(lst, list) and lst and isinstance(lst[0], ast.stmt)):
                continue
            out, changed = [], False
            for st in lst:
                if isinstance(st, ast.Assign) and len(st.targets) == 1 and isinstance(st.targets[0], (ast.Tuple, ast.List)) \
                        and isinstance(st.value, (ast.Tuple, ast.List)) and len(st.value.elts) == len(st.targets[0].elts) >= 2 \
                        and all(isinstance(e, ast.Name) for e in st.targets[0].elts) and not any(isinstance(e, ast.Starred) for e in st.value.elts):
                    tnames = {e.id for e in st.targets[0].elts}
                    reads = {x.id for v in st.value.elts for x in ast.walk(v) if isinstance(x, ast.Name)}
                    if not (tnames & reads) and len(tnames) == len(st.targets[0].elts):
                        for t_, v_ in zip(st.targets[0].elts, st.value.elts):
                            out.append(ast.fix_missing_locations(ast.copy_location(ast.Assign(targets=[t_], value=v_), st)))
                        changed = True
                        continue
                out.append(st)
            if changed:
                lst[:] = out


class AnalysisError(Exception):
    """The analyser cannot decide (exit 2).  Never a verdict."""

    def __init__(self, msg, rule=None):
        super().__init__(msg)
        self.rule = rule


@dataclass
class FuncInfo:
    qualname: str
    name: str
    module: "ModuleInfo"
    node: ast.FunctionDef
    cls: Optional["ClassInfo"] = None
    parent: Optional["FuncInfo"] = None
    decorators: List[ast.expr] = field(default_factory=list)
    kind: str = "function"  # function | method | staticmethod | property | setter | nested

    @property
    def own_params(self) -> List[str]:
        """Parameters in declaration order (what a call site binds against)."""
        a = self.node.args
        return [x.arg for x in a.posonlyargs + a.args + a.kwonlyargs]

    @property
    def params(self) -> List[str]:
        """Parameters in the order of the reference tree when the function (or the reference helper it stands in for)
        merely had its parameters reordered - rules name the k-th *reference* parameter."""
        own = self.own_params
        ro = getattr(self, "ref_order", None)
        if ro is not None and set(ro) == set(own) and len(ro) == len(own):
            return list(ro)
        return own

    @property
    def file(self):
        return self.module.path

    @property
    def relfile(self):
        return self.module.relpath

    def param_annotation(self, name):
        a = self.node.args
        for x in a.posonlyargs + a.args + a.kwonlyargs:
            if x.arg == name:
                return x.annotation
        return None

    def default_of(self, name):
        a = self.node.args
        pos = a.posonlyargs + a.args
        nd = len(a.defaults)
        for i, x in enumerate(pos):
            if x.arg == name:
                j = i - (len(pos) - nd)
                return a.defaults[j] if j >= 0 else None
        for x, d in zip(a.kwonlyargs, a.kw_defaults):
            if x.arg == name:
                return d
        return None


@dataclass
class ClassInfo:
    qualname: str
    name: str
    module: "ModuleInfo"
    node: ast.ClassDef
    methods: Dict[str, FuncInfo] = field(default_factory=dict)
    properties: Dict[str, FuncInfo] = field(default_factory=dict)
    setters: Dict[str, FuncInfo] = field(default_factory=dict)
    is_dataclass: bool = False
    # field name -> annotation node (dataclass AnnAssign, or __init__ parameter
    # of the same name stored into self.<field>)
    fields: Dict[str, Optional[ast.expr]] = field(default_factory=dict)
    # self.<attr> = <param> edges of __init__: attr -> param name
    init_field_param: Dict[str, str] = field(default_factory=dict)


@dataclass
class ModuleInfo:
    name: str
    path: str
    relpath: str
    source: str
    tree: ast.Module
    is_package: bool
    imports: Dict[str, str] = field(default_factory=dict)  # local name -> fq target
    functions: Dict[str, FuncInfo] = field(default_factory=dict)
    classes: Dict[str, ClassInfo] = field(default_factory=dict)
    globals: Dict[str, ast.stmt] = field(default_factory=dict)  # module-level bindings
    global_assign_count: Dict[str, int] = field(default_factory=dict)


class Program:
    """All parsed modules of the package the build ships."""

    MIN_MODULES = 20
    MIN_FUNCTIONS = 75

    def __init__(self, root: str, check_floor: bool = True):
        self.root = os.path.abspath(root)
        self.pkg_name, self.pkg_dir = self._find_package()
        self.modules: Dict[str, ModuleInfo] = {}
        self.functions: Dict[str, FuncInfo] = {}
        self.classes: Dict[str, ClassInfo] = {}
        self._load()
        if check_floor:
            if len(self.modules) < self.MIN_MODULES or len(self.functions) < self.MIN_FUNCTIONS:
                raise AnalysisError(
                    f"only {len(self.modules)} modules / {len(self.functions)} functions found under "
                    f"{self.pkg_dir}; floor is {self.MIN_MODULES}/{self.MIN_FUNCTIONS}")
        self._forbid_dynamic()

    # ------------------------------------------------------------------
    def _find_package(self):
        pp = os.path.join(self.root, "pyproject.toml")
        name = "fast_ticc"
        frm = "src"
        if os.path.exists(pp):
            txt = open(pp).read()
            m = re.search(r'packages\s*=\s*\[\s*\{([^}]*)\}', txt)
            if m:
                inc = re.search(r'include\s*=\s*"([^"]+)"', m.group(1))
                fr = re.search(r'from\s*=\s*"([^"]+)"', m.group(1))
                if inc:
                    name = inc.group(1)
                if fr:
                    frm = fr.group(1)
        d = os.path.join(self.root, frm, name)
        if not os.path.isdir(d):
            raise AnalysisError(f"package directory {d} not found")
        return name, d

    def _load(self):
        for dirpath, dirnames, filenames in os.walk(self.pkg_dir):
            dirnames[:] = sorted(x for x in dirnames if x != "__pycache__")
            for fn in sorted(filenames):
                if not fn.endswith(".py"):
                    continue
                path = os.path.join(dirpath, fn)
                rel = os.path.relpath(path, self.pkg_dir)
                parts = rel[:-3].split(os.sep)
                is_pkg = parts[-1] == "__init__"
                if is_pkg:
                    parts = parts[:-1]
                modname = ".".join([self.pkg_name] + parts)
                src = open(path, encoding="utf-8").read()
                try:
                    tree = ast.parse(src, filename=path)
                except SyntaxError as e:
                    raise AnalysisError(f"{path} does not parse: {e}")
                _split_parallel_assignments(tree)
                mi = ModuleInfo(modname, path, os.path.relpath(path, self.root), src, tree, is_pkg)
                self.modules[modname] = mi
        for mi in self.modules.values():
            self._index_module(mi)

    def _index_module(self, mi: ModuleInfo):
        pkg = mi.name if mi.is_package else mi.name.rsplit(".", 1)[0]
        for st in ast.walk(mi.tree):
            # imports anywhere (the try/except ImportError of numba_guard included)
            if isinstance(st, ast.Import):
                for a in st.names:
                    if a.asname:
                        mi.imports[a.asname] = a.name
                    else:
                        top = a.name.split(".")[0]
                        mi.imports[top] = top
            elif isinstance(st, ast.ImportFrom):
                base = st.module or ""
                if st.level:
                    anchor = pkg.split(".")
                    if st.level > 1:
                        anchor = anchor[: -(st.level - 1)]
                    base = ".".join(anchor + ([base] if base else []))
                for a in st.names:
                    mi.imports[a.asname or a.name] = f"{base}.{a.name}"
        for st in mi.tree.body:
            self._index_stmt(mi, st, None, None, mi.name)
        # module-level bindings, including those inside module-level if/try
        def collect(stmts):
            for st in stmts:
                if isinstance(st, ast.Assign):
                    for t in st.targets:
                        if isinstance(t, ast.Name):
                            mi.globals[t.id] = st
                            mi.global_assign_count[t.id] = mi.global_assign_count.get(t.id, 0) + 1
                elif isinstance(st, ast.AnnAssign) and isinstance(st.target, ast.Name):
                    mi.globals[st.target.id] = st
                elif isinstance(st, ast.If):
                    collect(st.body); collect(st.orelse)
                elif isinstance(st, ast.Try):
                    collect(st.body)
                    for h in st.handlers:
                        collect(h.body)
                    collect(st.orelse); collect(st.finalbody)
        collect(mi.tree.body)

    def _index_stmt(self, mi, st, cls, parent, prefix):
        if isinstance(st, (ast.FunctionDef, ast.AsyncFunctionDef)):
            q = f"{prefix}.{st.name}"
            kind = "function"
            if cls is not None and parent is None:
                kind = "method"
                for d in st.decorator_list:
                    if isinstance(d, ast.Name) and d.id == "staticmethod":
                        kind = "staticmethod"
                    elif isinstance(d, ast.Name) and d.id == "property":
                        kind = "property"
                    elif isinstance(d, ast.Attribute) and d.attr == "setter":
                        kind = "setter"
            if parent is not None:
                kind = "nested"
            if kind == "setter":
                q = q + ".setter"
            fi = FuncInfo(q, st.name, mi, st, cls, parent, list(st.decorator_list), kind)
            self.functions[q] = fi
            if cls is not None and parent is None:
                if kind == "property":
                    cls.properties[st.name] = fi
                elif kind == "setter":
                    cls.setters[st.name] = fi
                else:
                    cls.methods[st.name] = fi
            elif cls is None and parent is None:
                mi.functions[st.name] = fi
            for sub in st.body:
                self._index_nested(mi, sub, cls, fi, f"{prefix}.{st.name}.<locals>")
        elif isinstance(st, ast.ClassDef):
            q = f"{prefix}.{st.name}"
            ci = ClassInfo(q, st.name, mi, st)
            for d in st.decorator_list:
                txt = ast.unparse(d)
                if "dataclass" in txt:
                    ci.is_dataclass = True
            self.classes[q] = ci
            mi.classes[st.name] = ci
            for sub in st.body:
                if isinstance(sub, ast.AnnAssign) and isinstance(sub.target, ast.Name):
                    ci.fields[sub.target.id] = sub.annotation
                self._index_stmt(mi, sub, ci, None, q)
            init = ci.methods.get("__init__")
            if init is not None:
                for n in ast.walk(init.node):
                    if isinstance(n, ast.AnnAssign) and n.value is not None:
                        n = ast.copy_location(ast.Assign(targets=[n.target], value=n.value), n)     # self.x: T = v  is  self.x = v
                    if isinstance(n, ast.Assign) and len(n.targets) == 1:
                        t = n.targets[0]
                        if (isinstance(t, ast.Attribute) and isinstance(t.value, ast.Name)
                                and t.value.id == "self"):
                            ann = None
                            if isinstance(n.value, ast.Name) and n.value.id in init.params:
                                ann = init.param_annotation(n.value.id)
                                ci.init_field_param[t.attr] = n.value.id
                            else:
                                # self._x = f(param): remember the first parameter mentioned
                                for m in ast.walk(n.value):
                                    if isinstance(m, ast.Name) and m.id in init.params:
                                        ann = init.param_annotation(m.id)
                                        ci.init_field_param[t.attr] = m.id
                                        break
                            ci.fields.setdefault(t.attr, ann)
        elif isinstance(st, (ast.If, ast.Try)):
            # module-level conditional definitions (numba_guard)
            for sub in ast.iter_child_nodes(st):
                if isinstance(sub, ast.stmt):
                    self._index_stmt(mi, sub, cls, parent, prefix)
                elif isinstance(sub, ast.ExceptHandler):
                    for s2 in sub.body:
                        self._index_stmt(mi, s2, cls, parent, prefix)

    def _index_nested(self, mi, st, cls, parent, prefix):
        for n in ast.walk(st):
            if isinstance(n, (ast.FunctionDef, ast.AsyncFunctionDef)):
                q = f"{prefix}.{n.name}"
                if q not in self.functions:
                    self.functions[q] = FuncInfo(q, n.name, mi, n, cls, parent, list(n.decorator_list), "nested")

    def _forbid_dynamic(self):
        bad = {"exec", "eval", "setattr", "globals", "__import__", "compile"}
        for mi in self.modules.values():
            for n in ast.walk(mi.tree):
                if isinstance(n, ast.Call) and isinstance(n.func, ast.Name) and n.func.id in bad:
                    raise AnalysisError(
                        f"{mi.relpath}:{n.lineno}: dynamic construct {n.func.id}() is outside the analysed fragment of Python")
                if isinstance(n, ast.Attribute) and n.attr == "__dict__":
                    raise AnalysisError(f"{mi.relpath}:{n.lineno}: __dict__ access is outside the analysed fragment")
                if isinstance(n, (ast.Global, ast.Nonlocal, ast.Lambda, ast.AsyncFunctionDef, ast.Yield, ast.YieldFrom)):
                    # lambda / global / generators do not occur today; rules that meet them fail closed
                    pass

    # ------------------------------------------------------------------
    def _reference_signatures(self):
        """qualname -> parameter names, as confirmed on the reference tree (sa/known_signatures.json)."""
        if not hasattr(self, "_ref_sigs"):
            import json
            p = os.path.join(os.path.dirname(os.path.abspath(__file__)), "known_signatures.json")
            self._ref_sigs = json.load(open(p)) if os.path.exists(p) else {}
        return self._ref_sigs

    def _reference_shapes(self):
        if not hasattr(self, "_ref_shapes"):
            import json
            p = os.path.join(os.path.dirname(os.path.abspath(__file__)), "known_shapes.json")
            self._ref_shapes = json.load(open(p)) if os.path.exists(p) else {}
        return self._ref_shapes

    def match_renamed(self, res):
        """Stand-ins for reference helpers that are missing under their name: a function that did not exist on the reference
        tree, takes the same parameters (as a set) and sits at the same place of the call graph.  Conservative: a changed
        parameter set is never matched (rules read parameters by name), and the best candidate must be clearly best."""
        ref = self._reference_shapes()
        self.renamed = getattr(self, "renamed", {})
        missing = [q for q in ref if q not in self.functions and q.rsplit(".", 1)[-1].startswith("_")
                   and not q.rsplit(".", 1)[-1].startswith("__") and ref[q]["kind"] in ("function", "method", "staticmethod")]
        for q, r in ref.items():
            f = self.functions.get(q)
            if f is not None and f.own_params != r["params"] and set(f.own_params) == set(r["params"]):
                f.ref_order = list(r["params"])
        if not missing:
            return
        new = {q: f for q, f in self.functions.items() if q not in ref and f.parent is None and f.kind in ("function", "method", "staticmethod")}
        callees_of = {}
        callers_of = {}
        for q, f in self.functions.items():
            try:
                cs = res.calls(f)
            except Exception:
                cs = []
            names = set()
            for c in cs:
                t = c.callee.func.qualname if c.callee.func is not None else (c.callee.target or "")
                if t:
                    names.add(t)
                    if c.callee.func is not None:
                        callers_of.setdefault(t, set()).add(q)
            callees_of[q] = names

        def closure_callers(q, rivals=()):
            # callers of q, looking through other new helpers (a helper extracted in between) - but not through a rival
            # candidate: a function that is only reached through another candidate is that candidate's helper
            seen, work, out = set(), [q], set()
            while work:
                x = work.pop()
                for c in callers_of.get(x, ()):
                    if c in seen:
                        continue
                    seen.add(c)
                    if c in rivals:
                        continue
                    if c in new:
                        work.append(c)
                    out.add(c)
            return out

        def jac(a, b):
            a, b = set(a), set(b)
            return len(a & b) / len(a | b) if (a | b) else 0.0

        def toks(q):
            return {t for t in q.rsplit(".", 1)[-1].lower().split("_") if t}

        # same-name functions whose parameters were merely reordered
        for q, r in ref.items():
            f = self.functions.get(q)
            if f is not None and f.own_params != r["params"] and set(f.own_params) == set(r["params"]):
                f.ref_order = list(r["params"])

        def score_all():
            pairs = []
            for mq in missing:
                if mq in self.renamed:
                    continue
                r = ref[mq]
                cands = []
                for nq, f in new.items():
                    if nq in self.renamed.values():
                        continue
                    if (f.cls.qualname if f.cls else None) != r["cls"] and r["cls"] is not None:
                        continue
                    if (f.cls is None) != (r["cls"] is None):
                        continue
                    if len(f.own_params) != len(r["params"]):
                        continue
                    if set(f.own_params) != set(r["params"]):
                        # renamed parameters: tolerated only position by position with identical annotations
                        ra = r.get("annotations")
                        fa = [ast.unparse(f.param_annotation(p_)) if f.param_annotation(p_) is not None else "" for p_ in f.own_params]
                        if not ra or ra != fa or not all(fa[i] for i in range(len(fa)) if f.own_params[i] not in ("self", "cls")):
                            continue
                    cands.append(nq)
                for nq in cands:
                    f = new[nq]
                    ref_callers = {self.renamed.get(c, c) for c in r["callers"]}
                    sc = 0.0
                    if ref_callers & closure_callers(nq, set(cands) - {nq}):
                        sc += 3.0
                    elif set(f.own_params) != set(r["params"]):
                        continue      # renamed parameters *and* no call-graph evidence: not a stand-in
                    sc += 2.0 * jac({self.renamed.get(c, c) for c in r["callees"]}, callees_of.get(nq, ()))
                    sc += jac(toks(mq), toks(nq))
                    if f.params == r["params"]:
                        sc += 0.5
                    pairs.append((sc, mq, nq))
            pairs.sort(reverse=True)
            return pairs

        # one acceptance per round: an accepted rename changes who counts as a reference caller / callee
        for _round in range(len(missing) + 1):
            pairs = score_all()
            accepted = False
            for sc, mq, nq in pairs:
                rivals = [s2 for (s2, m2, n2) in pairs if (m2 == mq) != (n2 == nq)]
                best_rival = max(rivals) if rivals else 0.0
                if sc >= 1.0 and sc - best_rival >= 0.5:
                    self.renamed[mq] = nq
                    if set(new[nq].own_params) == set(ref[mq]["params"]):
                        if new[nq].own_params != ref[mq]["params"]:
                            new[nq].ref_order = list(ref[mq]["params"])
                    else:
                        new[nq].param_alias = dict(zip(ref[mq]["params"], new[nq].own_params))
                    accepted = True
                    break
            if not accepted:
                break

    def func(self, qualname: str) -> FuncInfo:
        q = qualname if qualname.startswith(self.pkg_name + ".") else f"{self.pkg_name}.{qualname}"
        fi = self.functions.get(q)
        if fi is not None:
            return fi
        rn = getattr(self, "renamed", {}).get(q)
        if rn is not None and rn in self.functions:
            return self.functions[rn]
        # renamed / moved private helper: a function that did not exist on the reference tree, has exactly the reference
        # parameter list of the missing anchor and is unique with that property stands in for it
        ref = self._reference_signatures()
        want = ref.get(q)
        if want is not None and q.rsplit(".", 1)[-1].startswith("_"):
            cands = [f for fq, f in self.functions.items() if fq not in ref and f.params == want and (f.cls is None) == ("." not in q[len(self.pkg_name) + 1:].rsplit(".", 1)[0] or True)]
            cands = [f for f in cands if f.name.startswith("_") and f.parent is None]
            if len(cands) == 1:
                self.renamed = getattr(self, "renamed", {})
                self.renamed[q] = cands[0].qualname
                return cands[0]
        raise AnalysisError(f"anchored function {q} not found in the package")

    def has_func(self, qualname: str) -> bool:
        q = qualname if qualname.startswith(self.pkg_name + ".") else f"{self.pkg_name}.{qualname}"
        return q in self.functions

    def cls(self, qualname: str) -> ClassInfo:
        q = qualname if qualname.startswith(self.pkg_name + ".") else f"{self.pkg_name}.{qualname}"
        ci = self.classes.get(q)
        if ci is None:
            raise AnalysisError(f"anchored class {q} not found in the package")
        return ci

    def digest(self) -> str:
        h = hashlib.sha256()
        for name in sorted(self.modules):
            h.update(name.encode())
            h.update(self.modules[name].source.encode())
        return h.hexdigest()

    def unit_counts(self):
        return {
            "modules": len(self.modules),
            "functions": len(self.functions),
            "classes": len(self.classes),
            "source_lines": sum(m.source.count("\n") for m in self.modules.values()),
        }
