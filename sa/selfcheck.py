"""Self-validation of the checker: positive examples (quick tier) and the mutant / twin corpus
(thorough tier).  Mutants are only ever analysed, never executed."""
from __future__ import annotations


def positive_examples(pid, root="/repo"):
    try:
        from .selftest import positive
    except ImportError:
        return []
    return positive.run(pid, root)


def run_selftests(pid, root, ana):
    try:
        from .selftest import corpus
    except ImportError:
        return {"mutants_applied": 0, "note": "corpus not built yet", "errors": []}
    return corpus.run(pid, root, ana)
