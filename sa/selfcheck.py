"""Self-validation of the checker: positive examples (quick tier) and the mutant / twin corpus
(thorough tier).  Mutants are only ever analysed, never executed."""
from __future__ import annotations


def positive_examples(pid, root="/repo"):
    try:
        from .selftest import positive
    except ImportError:
        return []
    return positive.run(pid, root)


def run_selftests(pid, root, ana):
    try:
        from .selftest import corpus
    except ImportError:
        return {"mutants_applied": 0, "note": "corpus not built yet", "errors": []}
    res = corpus.run(pid, root, ana)
    if res.get("on_reference_tree"):
        # mutant-on-twin composition: a refactoring must not hide a violation from the (normalising) analysis
        from .selftest import compose
        c = compose.run(root, pid, twins=["R", "S"])       # mutants on top of the structural refactorings
        res["composed"] = {k: v for k, v in c.items() if k != "undecided_list"}
        res["composed"]["undecided_sample"] = c["undecided_list"][:8]
        for m in c["masked_list"]:
            res["errors"].append(f"composition {m}: the mutant is reported on the plain tree but masked after the refactoring")
        # mechanical twins: identities of the language applied at one site each (sa/selftest/mechanical.py) must stay silent
        from .selftest import mechanical
        m_ = mechanical.run(root, pid, ana)
        res["mechanical_twins"] = {k: v for k, v in m_.items() if k != "not_silent"}
        for b in m_["not_silent"]:
            res["errors"].append(f"mechanical twin {b}: a behaviour-preserving rewrite raises a VIOLATION")
    return res
